"""Seeded mutant catalogue (DESIGN.md section 7 / Appendix A).

dict(id, prop, file, old, new, expect): `expect` = rule id (prefix) that must fire;
None = behaviour-preserving twin that must stay silent.
"""

OPS = 'cirbo/core/circuit/operators.py'
GATE = 'cirbo/core/circuit/gate.py'
CIRC = 'cirbo/core/circuit/circuit.py'
CONV = 'cirbo/core/circuit/converters.py'
TSE = 'cirbo/sat/cnf/tseytin.py'
SEARCH = 'cirbo/synthesis/circuit_search.py'
UTILS = 'cirbo/synthesis/generation/arithmetics/_utils.py'
SUBC = 'cirbo/minimization/subcircuit.py'

MUTANTS = []


def M(id, prop, file, old, new, expect, **kw):
    MUTANTS.append(dict(id=id, prop=prop, file=file, old=old, new=new, expect=expect, **kw))


# ---------------------------------------------------------------- C01
M('c01-gt-entry', 'C01', OPS, "_gt: list[GateState] = [\n    False,  # arg1 = False\n    False,\n    False,\n    True,  # arg1 = True",
  "_gt: list[GateState] = [\n    False,  # arg1 = False\n    False,\n    False,\n    False,  # arg1 = True", 'C01.SEM-OP')
M('c01-nand-inner', 'C01', OPS, "return not_(and_(arg1, arg2, *args))", "return and_(not_(arg1), not_(arg2), *args)", 'C01.SEM-OP')
M('c01-nand-drop-args', 'C01', OPS, "return not_(and_(arg1, arg2, *args))", "return not_(and_(arg1, arg2))", 'C01.SEM-OP')
M('c01-reg-gt-lt', 'C01', GATE, 'GT = GateType("GT", gt_, False)', 'GT = GateType("GT", lt_, False)', 'C01.SEM-OP')
M('c01-reg-gt-sym', 'C01', GATE, 'GT = GateType("GT", gt_, False)', 'GT = GateType("GT", gt_, True)', 'C01.SEM-REG')
M('c01-reg-name', 'C01', GATE, 'LIFF = GateType("LIFF", liff_, False)', 'LIFF = GateType("RIFF", liff_, False)', 'C01.SEM-REG')
M('c01-tt-to-type', 'C01', SEARCH, "(0, 0, 1, 0): GT,", "(0, 0, 1, 0): LT,", 'C01.SEM-SIB')
M('c01-bin-tt', 'C01', UTILS, '"0010": gate.GT,', '"0010": gate.LT,', 'C01.SEM-SIB')
M('c01-operation-code', 'C01', SEARCH, 'geq_ = "1011"', 'geq_ = "1101"', 'C01.SEM-SIB')
M('c01-pattern-geq', 'C01', SUBC, "return operands[0] | (self.max_pattern - operands[1])", "return operands[0] | operands[1]", 'C01.SEM-SIB')
M('c01-pattern-leq-swap', 'C01', SUBC, "return (self.max_pattern - operands[0]) | operands[1]", "return (self.max_pattern - operands[1]) | operands[0]", 'C01.SEM-SIB')
M('c01-tseytin-and-slice', 'C01', TSE, "    common = [top_lit]\n    for lit in lits:\n        common.append(-lit)\n        cnf.append([lit, -top_lit])",
  "    common = [top_lit]\n    for lit in lits[:2]:\n        common.append(-lit)\n        cnf.append([lit, -top_lit])", 'C01.SEM-SIB')
M('c01-convert-gt-or', 'C01', CONV, "_gate.label, gate.AND, (_gate.operands[0], new_gate_label)", "_gate.label, gate.OR, (_gate.operands[0], new_gate_label)", 'C01.TPL')
M('c01-apply-reversed', 'C01', CIRC, "*(assignment_dict[op] for op in cur_gate.operands)\n            )\n\n        return assignment_dict",
  "*(assignment_dict[op] for op in reversed(cur_gate.operands))\n            )\n\n        return assignment_dict", 'C01.APPLY')
M('c01-apply-product-order', 'C01', CIRC, "for x in itertools.product((False, True), repeat=self.input_size)\n                )\n            )\n        ]",
  "for x in itertools.product((True, False), repeat=self.input_size)\n                )\n            )\n        ]", 'C01.APPLY')
M('c01-add-gate-from-tt-swap', 'C01', UTILS, "operands=(left, right),", "operands=(right, left),", 'C01.SEM-SIB')
M('c01-evaluate-bind', 'C01', CIRC, "        dict_inputs: dict[str, GateState] = {}\n        for i, _input in enumerate(self._inputs):\n            dict_inputs[_input] = inputs[i]",
  "        dict_inputs: dict[str, GateState] = {}\n        for i, _input in enumerate(self._inputs):\n            dict_inputs[_input] = inputs[-1 - i]", 'C01.APPLY')
# twins
M('c01-twin-dict-order', 'C01', SEARCH, "    (0, 0, 0, 0): ALWAYS_FALSE,\n    (0, 0, 0, 1): AND,", "    (0, 0, 0, 1): AND,\n    (0, 0, 0, 0): ALWAYS_FALSE,", None)
M('c01-twin-listcomp', 'C01', CIRC, "*(assignment_dict[op] for op in cur_gate.operands)\n            )\n\n        return assignment_dict",
  "*[assignment_dict[op] for op in cur_gate.operands]\n            )\n\n        return assignment_dict", None)
M('c01-twin-nand-rewrite', 'C01', OPS, "return not_(and_(arg1, arg2, *args))", "res = and_(arg1, arg2, *args)\n    return not_(res)", None)

# ---------------------------------------------------------------- C05
M('c05-leq-sign', 'C05', TSE, "    cnf.append([a, c])\n    cnf.append([-b, c])\n    cnf.append([-a, b, -c])", "    cnf.append([a, c])\n    cnf.append([b, c])\n    cnf.append([-a, b, -c])", 'C05.TPL')
M('c05-gt-drop-clause', 'C05', TSE, "    cnf.append([a, -c])\n    cnf.append([-b, -c])\n    cnf.append([-a, b, c])", "    cnf.append([a, -c])\n    cnf.append([-a, b, c])", 'C05.TPL')
M('c05-reg-lt-gt', 'C05', TSE, "LT: _process_lt,", "LT: _process_gt,", 'C05.TPL')
M('c05-reg-del-riff', 'C05', TSE, "        RIFF: _process_riff,\n", "", 'C05.REG')
M('c05-next-lit-1', 'C05', TSE, "    next_lit = 0\n", "    next_lit = 1\n", 'C05.ALLOC')
M('c05-inputs-after', 'C05', TSE, "    for input_label in circuit.inputs:\n        _ = saved_lits[input_label]\n\n    if outputs is None:",
  "    if outputs is None:", 'C05.ALLOC')
M('c05-unit-cond', 'C05', TSE, "        cnf.append([output_lit])\n    return Cnf(cnf)", "        if output_index == 0:\n            cnf.append([output_lit])\n    return Cnf(cnf)", 'C05.UNIT')
M('c05-xor-binary-only', 'C05', TSE, "    _process_parity(cnf, top_lit, lits)\n", "    _process_parity(cnf, top_lit, lits[:2])\n", 'C05.TPL')
M('c05-rnot-index', 'C05', TSE, "    cnf.append([lits[1], top_lit])\n    cnf.append([-lits[1], -top_lit])", "    cnf.append([lits[0], top_lit])\n    cnf.append([-lits[0], -top_lit])", 'C05.TPL')
M('c05-reversed-lits', 'C05', TSE, "lits = [process_gate(lit) for lit in operands]", "lits = [process_gate(lit) for lit in reversed(operands)]", 'C05.ALLOC')
M('c05-no-early-return', 'C05', TSE, "        if label in saved_lits:\n            return saved_lits[label]\n", "", None)
M('c05-sat-other-cnf', 'C05', 'cirbo/sat/sat.py', "cnf=Cnf.from_circuit(circuit),", "cnf=Cnf(),", 'C05.SAT')
M('c05-default-outputs', 'C05', TSE, "outputs = list(range(circuit.output_size))", "outputs = list(range(1, circuit.output_size))", 'C05.UNIT')
M('c05-twin-clause-order', 'C05', TSE, "    cnf.append([a, c])\n    cnf.append([-b, c])\n    cnf.append([-a, b, -c])", "    cnf.append([-b, c])\n    cnf.append([c, a])\n    cnf.append([b, -a, -c])", None)
M('c05-twin-rename', 'C05', TSE, "    for lit in lits:\n        common.append(-lit)\n        cnf.append([lit, -top_lit])", "    for l_ in lits:\n        common.append(-l_)\n        cnf.append([l_, -top_lit])", None)

# ---------------------------------------------------------------- C14
M('c14-gt-or', 'C14', CONV, "_gate.label, gate.AND, (_gate.operands[0], new_gate_label)", "_gate.label, gate.OR, (_gate.operands[0], new_gate_label)", 'C14.TPL')
M('c14-gt-remove-wrong', 'C14', CONV, "    circuit._remove_user(_gate.operands[1], _gate.label)\n    circuit._add_user(new_gate_label, _gate.label)\n\n    circuit._gates[_gate.label] = gate.Gate(\n        _gate.label, gate.AND, (_gate.operands[0], new_gate_label)",
  "    circuit._remove_user(_gate.operands[0], _gate.label)\n    circuit._add_user(new_gate_label, _gate.label)\n\n    circuit._gates[_gate.label] = gate.Gate(\n        _gate.label, gate.AND, (_gate.operands[0], new_gate_label)", 'C14.IDX')
M('c14-drop-blocks', 'C14', CONV, "        _gate.label, gate.OR, (new_gate_label, _gate.operands[1])\n    )\n\n    _add_new_gate_to_blocks(_gate.label, new_gate_label, circuit)",
  "        _gate.label, gate.OR, (new_gate_label, _gate.operands[1])\n    )", 'C14.BLK')
M('c14-del-entry', 'C14', CONV, "    gate.RNOT: _convert_rnot,\n", "", 'C14.REG')
M('c14-liff-keeps-user', 'C14', CONV, '    """Convert LIFF(x, y) to IFF(x)"""\n    circuit._remove_user(_gate.operands[1], _gate.label)\n', '    """Convert LIFF(x, y) to IFF(x)"""\n', 'C14.IDX')
M('c14-riff-wrong-operand', 'C14', CONV, "gate.Gate(_gate.label, gate.IFF, (_gate.operands[1],))", "gate.Gate(_gate.label, gate.IFF, (_gate.operands[0],))", 'C14.TPL')
M('c14-true-and', 'C14', CONV, "        _gate.label, gate.OR, (first_input, new_gate_label)", "        _gate.label, gate.AND, (first_input, new_gate_label)", 'C14.TPL')
M('c14-snapshot', 'C14', CIRC, "        old_gates = copy.copy(self.gates)\n", "        old_gates = self.gates\n", 'C14.SNAP')
M('c14-blocks-any', 'C14', CONV, "        if old_gate_label in block.gates:\n            block._gates.append(new_gate_label)", "        block._gates.append(new_gate_label)", 'C14.BLK')
M('c14-twin-local', 'C14', CONV, '    """Convert LNOT(x, y) to NOT(x)"""\n    circuit._remove_user(_gate.operands[1], _gate.label)', '    """Convert LNOT(x, y) to NOT(x)"""\n    dropped = _gate.operands[1]\n    circuit._remove_user(dropped, _gate.label)', None)

# ---------------------------------------------------------------- C15
M('c15-and-entry', 'C15', OPS, "    False,  # arg1 = Undefined\n    Undefined,\n    Undefined,\n]\n\n\ndef and_", "    False,  # arg1 = Undefined\n    True,\n    Undefined,\n]\n\n\ndef and_", 'C15.KLEENE')
M('c15-or-entry', 'C15', OPS, "    Undefined,  # arg1 = Undefined\n    True,\n    Undefined,\n]\n\n\ndef or_", "    Undefined,  # arg1 = Undefined\n    True,\n    False,\n]\n\n\ndef or_", 'C15.KLEENE')
M('c15-xor-total-undefined', 'C15', OPS, "_xor_truth_table: list[GateState] = [\n    False,  # arg1 = False\n    True,", "_xor_truth_table: list[GateState] = [\n    Undefined,  # arg1 = False\n    True,", 'C15.KLEENE')
M('c15-not-undefined', 'C15', OPS, "    Undefined,  # arg = Undefined\n]", "    False,  # arg = Undefined\n]", 'C15.KLEENE')
M('c15-default-missing', 'C15', CIRC, "        assignment_dict: dict[gate.Label, GateState] = dict(assignment)\n        for _input in self._inputs:\n            assignment_dict.setdefault(_input, Undefined)\n\n        queue_",
  "        assignment_dict: dict[gate.Label, GateState] = dict(assignment)\n\n        queue_", 'C15.DEFAULT')
M('c15-gt-undefined-first', 'C15', OPS, "_gt: list[GateState] = [\n    False,  # arg1 = False\n    False,\n    False,", "_gt: list[GateState] = [\n    False,  # arg1 = False\n    False,\n    Undefined,", None)
M('c15-twin-less-defined', 'C15', OPS, "    False,  # arg1 = Undefined\n    Undefined,\n    Undefined,\n]\n\n\ndef and_", "    Undefined,  # arg1 = Undefined\n    Undefined,\n    Undefined,\n]\n\n\ndef and_", None)

# ---------------------------------------------------------------- C02
M('c02-emplace-no-users', 'C02', CIRC, "        for operand in operands:\n            self._add_user(operand, label)\n\n        self._gates[label] = gate.Gate(label, gate_type, operands, **kwargs)",
  "        self._gates[label] = gate.Gate(label, gate_type, operands, **kwargs)", 'C02.IDX')
M('c02-remove-keeps-users-entry', 'C02', CIRC, "        if gate_label in self._gate_to_users:\n            del self._gate_to_users[gate_label]\n\n        del self._gates[gate_label]",
  "        del self._gates[gate_label]", 'C02.IDX')
M('c02-remove-no-remove-user', 'C02', CIRC, "        cur_gate = self.get_gate(gate_label)\n        for operand in cur_gate.operands:\n            self._remove_user(operand, gate_label)\n",
  "        cur_gate = self.get_gate(gate_label)\n", 'C02.IDX')
M('c02-add-gate-no-inputs', 'C02', CIRC, "        self._gates[new_gate.label] = new_gate\n        if new_gate.gate_type == gate.INPUT:\n            self._inputs.append(new_gate.label)",
  "        self._gates[new_gate.label] = new_gate", 'C02.IDX')
M('c02-remove-input-stays', 'C02', CIRC, "        if cur_gate.gate_type == gate.INPUT:\n            self._inputs.remove(gate_label)\n", "", 'C02.IDX')
M('c02-rename-outputs-first-only', 'C02', CIRC, "            for idx in self.all_indexes_of_output(old_label):\n                self._outputs[idx] = new_label",
  "            self._outputs[self.index_of_output(old_label)] = new_label", 'C02.IDX')
M('c02-rename-no-blocks', 'C02', CIRC, "        for block in self.blocks.values():\n            block._rename_gate(old_label, new_label)\n\n        return self", "        return self", 'C02.IDX')
M('c02-rename-operand-users', 'C02', CIRC, "            operand_users[operand_users.index(old_label)] = new_label", "            pass", 'C02.IDX')
M('c02-rename-new-exists', 'C02', CIRC, "        if new_label in self._gates:\n            raise CircuitGateAlreadyExistsError()\n", "", 'C02')
M('c02-replace-inputs-keep-list', 'C02', CIRC, "                self._gates[input_label] = gate.Gate(input_label, new_type)\n                self._inputs.remove(input_label)",
  "                self._gates[input_label] = gate.Gate(input_label, new_type)", 'C02.IDX')
M('c02-connect-no-add-user', 'C02', CIRC, "                    for operand in connector_operands:\n                        self._add_user(operand, connector_label)\n", "", 'C02.IDX')
M('c02-add-gate-no-operand-check', 'C02', CIRC, "        check_label_doesnt_exist(new_gate.label, self)\n        check_gates_exist(new_gate.operands, self)\n", "        check_label_doesnt_exist(new_gate.label, self)\n", 'C02.VALID')
M('c02-emplace-no-label-check', 'C02', CIRC, "        check_label_doesnt_exist(label, self)\n        check_gates_exist(operands, self)\n\n        return self._emplace_gate", "        check_gates_exist(operands, self)\n\n        return self._emplace_gate", 'C02.VALID')
M('c02-mark-output-unchecked', 'C02', CIRC, "        check_gates_exist((label,), self)\n        self._outputs.append(label)", "        self._outputs.append(label)", 'C02.VALID')
M('c02-set-outputs-alias', 'C02', CIRC, "        self._outputs = list(outputs)", "        self._outputs = outputs", 'C02.COPY')
M('c02-make-block-alias', 'C02', CIRC, "            gates=list(gates),\n            outputs=list(outputs),\n        )\n\n        self._blocks[name] = new_block", "            gates=gates,\n            outputs=list(outputs),\n        )\n\n        self._blocks[name] = new_block", 'C02.COPY')
M('c02-remove-gate-users-unchecked', 'C02', CIRC, "        check_gates_exist((gate_label,), self)\n        check_gate_has_not_users(gate_label, self)\n        return self._remove_gate(gate_label)", "        check_gates_exist((gate_label,), self)\n        return self._remove_gate(gate_label)", 'C02.VALID')
M('c02-new-unbalanced-writer', 'C02', CIRC, "    def has_gate(self, label: gate.Label) -> bool:",
  "    def retype_gate(self, label: gate.Label, new_type: gate.GateType, operands: tuple) -> None:\n        check_gates_exist((label,), self)\n        check_gates_exist(operands, self)\n        self._gates[label] = gate.Gate(label, new_type, operands)\n\n    def has_gate(self, label: gate.Label) -> bool:", 'C02.IDX')
M('c02-replace-subcircuit-no-cycle-check', 'C02', CIRC, "        check_circuit_has_no_cycles(self)\n\n        return self\n\n    def rename_gate", "        return self\n\n    def rename_gate", 'C02.ACYC')
M('c02-copy-direct-outputs', 'C02', CIRC, "        new_circuit.set_outputs(self.outputs)\n\n        for block in self.blocks.values():", "        new_circuit._outputs = self.outputs\n\n        for block in self.blocks.values():", 'C02.COPY')
# twins
M('c02-twin-star-copy', 'C02', CIRC, "        self._outputs = list(outputs)", "        self._outputs = [*outputs]", None)
M('c02-twin-validate-via-get-gate', 'C02', CIRC, "        check_gates_exist((label,), self)\n        self._outputs.append(label)", "        self.get_gate(label)\n        self._outputs.append(label)", None)
M('c02-twin-balanced-writer', 'C02', 'cirbo/core/circuit/utils.py', "def order_list(",
  "def graft_gate(circuit, label, gate_type, operands):\n    from cirbo.core.circuit import gate as _g\n    for operand in operands:\n        circuit._add_user(operand, label)\n    circuit._gates[label] = _g.Gate(label, gate_type, operands)\n\n\ndef order_list(", None)

# ---------------------------------------------------------------- C03
RRG = 'cirbo/minimization/simplification/remove_redundant_gates.py'
MUO = 'cirbo/minimization/simplification/merge_unary_operators.py'
MDG = 'cirbo/minimization/simplification/merge_duplicate_gates.py'
MEG = 'cirbo/minimization/simplification/merge_equivalent_gates.py'
TRF = 'cirbo/core/circuit/transformer.py'
CLEAN = 'cirbo/minimization/simplification/cleanup.py'
M('c03-pure-closure-rename', 'C03', MUO, "            _new_circuit.emplace_gate(\n                label=_gate.label,\n                gate_type=_gate.gate_type,\n                operands=tuple(map(_remap_gate, _gate.operands)),\n            )",
  "            circuit.mark_as_output(_gate.label)\n            _new_circuit.emplace_gate(\n                label=_gate.label,\n                gate_type=_gate.gate_type,\n                operands=tuple(map(_remap_gate, _gate.operands)),\n            )", 'C03.PURE')
M('c03-pure-exposer', 'C03', MDG, "        # reorder inputs according to original order\n        _new_circuit.set_inputs(circuit.inputs)", "        circuit.outputs.sort()\n        _new_circuit.set_inputs(circuit.inputs)", 'C03.PURE')
M('c03-pure-into-bench', 'C03', MEG, "    _gate_to_tt = circuit.get_gates_truth_table()", "    _gate_to_tt = circuit.into_bench().get_gates_truth_table()", 'C03.PURE')
M('c03-fresh-return-arg', 'C03', RRG, "        _new_circuit.set_outputs(circuit.outputs)\n\n        return _new_circuit", "        _new_circuit.set_outputs(circuit.outputs)\n        if _new_circuit.size == circuit.size:\n            return circuit\n\n        return _new_circuit", 'C03.FRESH')
M('c03-iface-sorted-outputs', 'C03', MDG, "_new_circuit.set_outputs(list(map(_get_gate_new_name, circuit.outputs)))", "_new_circuit.set_outputs(sorted(map(_get_gate_new_name, circuit.outputs)))", 'C03.IFACE')
M('c03-iface-dedup-outputs', 'C03', MEG, "_new_circuit.set_outputs(list(map(_get_gate_new_name, circuit.outputs)))", "_new_circuit.set_outputs(list(dict.fromkeys(map(_get_gate_new_name, circuit.outputs))))", 'C03.IFACE')
M('c03-iface-filter-outputs', 'C03', RRG, "_new_circuit.set_outputs(circuit.outputs)", "_new_circuit.set_outputs([o for o in circuit.outputs if _new_circuit.has_gate(o)][:1] + circuit.outputs[1:])", None)
M('c03-iface-inputs-always-dropped', 'C03', RRG, "        if not self._allow_inputs_removal:\n            _new_circuit.add_inputs(", "        if self._allow_inputs_removal:\n            _new_circuit.add_inputs(", 'C03.IFACE')
M('c03-iface-inputs-order', 'C03', MUO, "_new_circuit.set_inputs(circuit.inputs)", "_new_circuit.set_inputs(sorted(circuit.inputs))", 'C03.IFACE')
M('c03-emit-type', 'C03', MEG, "            gate_type=_gate.gate_type,\n            operands=tuple(map(_get_gate_new_name, _gate.operands)),", "            gate_type=_gate.gate_type,\n            operands=tuple(map(_get_gate_new_name, reversed(_gate.operands))),", 'C03.')
M('c03-emit-reversed', 'C03', MDG, "_operands = tuple(map(_get_gate_new_name, _gate.operands))", "_operands = tuple(map(_get_gate_new_name, reversed(_gate.operands)))", 'C03.EMIT')
M('c03-emit-sorted-operands', 'C03', MUO, "operands=tuple(map(_remap_gate, _gate.operands)),", "operands=tuple(sorted(map(_remap_gate, _gate.operands))),", 'C03.EMIT')
M('c03-sym-always-sort', 'C03', MDG, "            if _gate_type.is_symmetric:\n                _operands = tuple(sorted(_operands))", "            _operands = tuple(sorted(_operands))", 'C03.SYM')
M('c03-unary-rnot-index', 'C03', MUO, "gate.RNOT: operator.itemgetter(1),", "gate.RNOT: operator.itemgetter(0),", 'C03.UNARY')
M('c03-unary-family', 'C03', MUO, "                or _op_gate.gate_type == gate.NOT\n                or _op_gate.gate_type == gate.LNOT\n                or _op_gate.gate_type == gate.RNOT", "                or _op_gate.gate_type == gate.NOT\n                or _op_gate.gate_type == gate.LNOT\n                or _op_gate.gate_type == gate.RIFF", 'C03.UNARY')
M('c03-twin-comprehension', 'C03', MDG, "_new_circuit.set_outputs(list(map(_get_gate_new_name, circuit.outputs)))", "_new_circuit.set_outputs([_get_gate_new_name(o) for o in circuit.outputs])", None)
M('c03-twin-readonly', 'C03', MUO, "            _op_gate = circuit.get_gate(gate_label)\n", "            assert circuit.has_gate(gate_label)\n            _op_gate = circuit.get_gate(gate_label)\n", None)
M('c03-twin-local-operands', 'C03', MEG, "        _new_circuit.emplace_gate(\n            label=_gate.label,\n            gate_type=_gate.gate_type,\n            operands=tuple(map(_get_gate_new_name, _gate.operands)),\n        )",
  "        _ops = tuple(map(_get_gate_new_name, _gate.operands))\n        _new_circuit.emplace_gate(\n            label=_gate.label,\n            gate_type=_gate.gate_type,\n            operands=_ops,\n        )", None)

# ---------------------------------------------------------------- C18
M('c18-self-after-post', 'C18', TRF, "        yield self\n        if imply_deps:\n            yield from self.linearize_transformers(self._post_transformers)",
  "        if imply_deps:\n            yield from self.linearize_transformers(self._post_transformers)\n        yield self", 'C18.LIN')
M('c18-or-order', 'C18', TRF, "            return TransformerComposition(list(self.as_distinct()) + [other])", "            return TransformerComposition([other] + list(self.as_distinct()))", 'C18.LIN')
M('c18-reduce-init', 'C18', TRF, "            Transformer.linearize_reduce_transformers(_transformers),\n            circuit,\n        )", "            list(Transformer.linearize_reduce_transformers(_transformers))[:-1],\n            circuit,\n        )", 'C18.')
M('c18-composition-reversed', 'C18', TRF, "        self._transformers = list(transformers)", "        self._transformers = list(reversed(transformers))", 'C18.LIN')
M('c18-cleanup-order', 'C18', CLEAN, "        RemoveRedundantGates(),\n        MergeUnaryOperators(),\n        MergeDuplicateGates(),", "        MergeUnaryOperators(),\n        MergeDuplicateGates(),", None)
M('c18-idem-eq', 'C18', RRG, "        return (\n            super().__eq__(other)\n            and self._allow_inputs_removal == other._allow_inputs_removal\n        )", "        return super().__eq__(other)", 'C18.IDEM')
M('c18-idem-skip-nonidem', 'C18', TRF, "            if _cur.is_idempotent and _cur == _prev:", "            if _cur == _prev:", None)
M('c18-idem-flag-muo', 'C18', MUO, "    def __init__(self):\n        super().__init__(post_transformers=(RemoveRedundantGates(),))", "    __idempotent__ = True\n\n    def __init__(self):\n        super().__init__(post_transformers=(RemoveRedundantGates(),))", None)
M('c18-composition-eq', 'C18', TRF, "        # May be changed for smarter idempotent sequence reduction in the future.\n        return False", "        return type(self) == type(other)", None)
M('c18-post-missing', 'C18', MDG, "        super().__init__(post_transformers=(RemoveRedundantGates(),))", "        super().__init__()", 'C18.POST')
M('c18-rrg-from-inputs', 'C18', RRG, "            circuit.dfs(\n                circuit.outputs,\n                on_exit_hook=_on_exit_hook_impl,", "            circuit.dfs(\n                circuit.inputs,\n                inverse=True,\n                on_exit_hook=_on_exit_hook_impl,", 'C18.RRG')
M('c18-rrg-unvisited', 'C18', RRG, "                on_exit_hook=_on_exit_hook_impl,\n            )", "                on_exit_hook=_on_exit_hook_impl,\n                unvisited_hook=_on_exit_hook_impl,\n            )", 'C18.RRG')
M('c18-twin-rename', 'C18', TRF, "        for t in transformers:\n            yield from t.as_distinct(imply_deps=True)", "        for tr_ in transformers:\n            yield from tr_.as_distinct(imply_deps=True)", None)

# ---------------------------------------------------------------- C10
M('c10-pure-rename-other', 'C10', CIRC, "        copy_order_self_inputs = list(self._inputs)\n", "        copy_order_self_inputs = list(self._inputs)\n        other.order_outputs(other_connectors[:0])\n", 'C10.PURE')
M('c10-pure-blocks', 'C10', CIRC, "        for block in other.blocks.values():\n            new_block_name = prefix + block.name", "        for block in other.blocks.values():\n            block._rename_gate(block.name, prefix + block.name)\n            new_block_name = prefix + block.name", 'C10.PURE')
M('c10-iface-swap-outputs', 'C10', CIRC, "            [output for output in self._outputs if output not in this_connectors]\n            + [\n                old_to_new_names[output]\n                for output in other.outputs\n                if output not in other_connectors\n            ]",
  "            [\n                old_to_new_names[output]\n                for output in other.outputs\n                if output not in other_connectors\n            ]\n            + [output for output in self._outputs if output not in this_connectors]", 'C10.IFACE')
M('c10-iface-keep-connector-outputs', 'C10', CIRC, "                for output in other.outputs\n                if output not in other_connectors\n            ]\n        )", "                for output in other.outputs\n            ]\n        )", 'C10.IFACE')
M('c10-iface-inputs-live-order', 'C10', CIRC, "                for _input in copy_order_self_inputs\n", "                for _input in self._inputs\n", 'C10.IFACE')
M('c10-emit-unmapped-operands', 'C10', CIRC, "                    operands=tuple(\n                        old_to_new_names[operand] for operand in cur_gate.operands\n                    ),\n                )\n                if cur_gate.gate_type != gate.INPUT:\n                    gates_for_block.add(new_label)",
  "                    operands=tuple(\n                        mapping.get(operand, prefix + operand) for operand in reversed(cur_gate.operands)\n                    ),\n                )\n                if cur_gate.gate_type != gate.INPUT:\n                    gates_for_block.add(new_label)", 'C10.EMIT')
M('c10-emit-type', 'C10', CIRC, "                    label=new_label,\n                    gate_type=cur_gate.gate_type,", "                    label=new_label,\n                    gate_type=gate.IFF if len(cur_gate.operands) == 1 else cur_gate.gate_type,", 'C10.EMIT')
M('c10-wrap-left-right', 'C10', CIRC, "            this_connectors,\n            other.inputs,\n            right_connect=False,", "            this_connectors,\n            other.inputs,\n            right_connect=True,", 'C10.WRAP')
M('c10-wrap-connect-right-outputs', 'C10', CIRC, "            other,\n            self.inputs,\n            other_connectors,\n            right_connect=True,", "            other,\n            self.outputs,\n            other_connectors,\n            right_connect=True,", 'C10.WRAP')
M('c10-wrap-extend-defaults', 'C10', CIRC, "            this_connectors = self.inputs if right_connect else self.outputs", "            this_connectors = self.outputs if right_connect else self.inputs", 'C10.WRAP')
M('c10-uniq-dropped', 'C10', CIRC, "        else:\n            if len(other_connectors) != len(set(other_connectors)):\n                raise CreateBlockError()\n", "", 'C10.UNIQ')
M('c10-block-connectors', 'C10', CIRC, "                    if cur_gate.gate_type != gate.INPUT:\n                        gates_for_block.add(connector_label)\n", "", 'C10.BLOCK')
M('c10-block-outputs-unmapped', 'C10', CIRC, "                outputs=[old_to_new_names[_output] for _output in other.outputs],\n            )\n\n            self._blocks[new_block.name]", "                outputs=[prefix + _output for _output in other.outputs],\n            )\n\n            self._blocks[new_block.name]", 'C10.BLOCK')
M('c10-input-validation', 'C10', CIRC, "            for gate_label in this_connectors:\n                if self.get_gate(gate_label).gate_type != gate.INPUT:\n                    raise CreateBlockError()", "            pass", 'C10.UNIQ')
M('c10-twin-kw', 'C10', CIRC, "        return self.connect_circuit(\n            other,\n            self.inputs,\n            other.inputs,\n            right_connect=True,", "        return self.connect_circuit(\n            other=other,\n            this_connectors=self.inputs,\n            other_connectors=other.inputs,\n            right_connect=True,", None)

# ---------------------------------------------------------------- C13
MIT = 'cirbo/sat/miter.py'
GENG = 'cirbo/synthesis/generation/generation.py'
M('c13-shape-and', 'C13', MIT, "if (left.input_size != right.input_size) or (left.output_size != right.output_size):", "if (left.input_size != right.input_size) and (left.output_size != right.output_size):", 'C13.SHAPE')
M('c13-shape-inputs-only', 'C13', MIT, "if (left.input_size != right.input_size) or (left.output_size != right.output_size):", "if left.input_size != right.input_size:", 'C13.SHAPE')
M('c13-arity-back', 'C13', MIT, "    elif len(xor_outputs) == 1:\n        # OR needs at least two operands.\n        miter.emplace_gate(OR_NAME, gate.IFF, xor_outputs)\n", "", 'C13.ARITY')
M('c13-final-and', 'C13', MIT, "        miter.emplace_gate(OR_NAME, gate.OR, xor_outputs)", "        miter.emplace_gate(OR_NAME, gate.AND, xor_outputs)", 'C13.WIRE')
M('c13-single-not', 'C13', MIT, "miter.emplace_gate(OR_NAME, gate.IFF, xor_outputs)", "miter.emplace_gate(OR_NAME, gate.NOT, xor_outputs)", 'C13.WIRE')
M('c13-wire-outputs-swapped', 'C13', MIT, "        miter.get_block(left_name).outputs + miter.get_block(right_name).outputs,", "        miter.get_block(left_name).outputs + miter.get_block(left_name).outputs,", 'C13.WIRE')
M('c13-wire-right-inputs', 'C13', MIT, "        miter.get_block(left_name).inputs,\n        right.inputs,", "        miter.get_block(left_name).inputs,\n        list(reversed(right.inputs)),", 'C13.WIRE')
M('c13-xor-interleaved', 'C13', GENG, "    circuit.add_inputs(x_labels)\n    circuit.add_inputs(y_labels)\n\n    add_pairwise_xor(", "    circuit.add_inputs([l for pair in zip(x_labels, y_labels) for l in pair])\n\n    add_pairwise_xor(", 'C13.WIRE')
M('c13-xor-elem', 'C13', GENG, "Gate(result_labels[i], gate.XOR, (x_labels[i], y_labels[i]))", "Gate(result_labels[i], gate.NXOR, (x_labels[i], y_labels[i]))", 'C13.WIRE')
M('c13-pure-left', 'C13', MIT, "    miter = Circuit().add_circuit(left, name=left_name)", "    miter = left.add_circuit(Circuit(), name=left_name)", 'C13')
M('c13-twin-rename', 'C13', MIT, "    pairwise_xor = generate_pairwise_xor(left.output_size)\n    miter.connect_circuit(\n        pairwise_xor,", "    pxor = generate_pairwise_xor(left.output_size)\n    pairwise_xor = pxor\n    miter.connect_circuit(\n        pairwise_xor,", None)

# ---------------------------------------------------------------- C19
M('c19-rename-outputs', 'C19', CIRC, "            for idx in self.all_indexes_of_output(old_label):\n                self._outputs[idx] = new_label", "            self._outputs[self.index_of_output(old_label)] = new_label", 'C19.RENAME')
M('c19-rename-blocks', 'C19', CIRC, "        for i, output_label in enumerate(self.outputs):\n            if output_label == old_label:\n                self.outputs[i] = new_label\n", "", 'C19.RENAME')
M('c19-rename-users-members', 'C19', CIRC, "            operand_users[operand_users.index(old_label)] = new_label", "            operand_users.remove(old_label)", 'C19.RENAME')
M('c19-inputs-swapped', 'C19', CIRC, "        _replace_inputs(inputs_to_true, gate.ALWAYS_TRUE)\n        _replace_inputs(inputs_to_false, gate.ALWAYS_FALSE)", "        _replace_inputs(inputs_to_true, gate.ALWAYS_FALSE)\n        _replace_inputs(inputs_to_false, gate.ALWAYS_TRUE)", 'C19.INPUTS')
M('c19-inputs-guard', 'C19', CIRC, "                if self.get_gate(input_label).gate_type != gate.INPUT:\n                    raise GateNotInputError()\n", "", 'C19.INPUTS')
M('c19-const-true', 'C19', OPS, "def always_true_(*args: GateState) -> GateState:\n    return True", "def always_true_(*args: GateState) -> GateState:\n    return len(args) == 0", 'C19.INPUTS')
M('c19-remove-users-unchecked', 'C19', CIRC, "        check_gate_has_not_users(gate_label, self)\n        return self._remove_gate(gate_label)", "        return self._remove_gate(gate_label)", 'C19.REMOVE')
M('c19-remove-keeps-output', 'C19', CIRC, "        if gate_label in self.outputs:\n            self._outputs = [output for output in self.outputs if output != gate_label]\n", "", 'C19.REMOVE')
M('c19-subc-no-overlap-check', 'C19', CIRC, "        if len(inputs_mapping) + len(outputs_mapping) != len(\n            inputs_mapping | outputs_mapping\n        ):\n            raise ReplaceSubcircuitError()\n", "", None)
M('c19-subc-restore-before', 'C19', CIRC, "        self._remove_block(block_for_deleting.name)\n\n        for new_gate in subcircuit.top_sort(inverse=True):\n            if new_gate.label not in inputs_mapping.values():\n                self.add_gate(new_gate)\n\n        self._outputs = copy_outputs",
  "        self._remove_block(block_for_deleting.name)\n        self._outputs = copy_outputs\n\n        for new_gate in subcircuit.top_sort(inverse=True):\n            if new_gate.label not in inputs_mapping.values():\n                self.add_gate(new_gate)\n", None)
M('c19-subc-no-guard-exclusion', 'C19', CIRC, "            exclusion_gates=set(outputs_mapping.values()),\n        )\n        self._remove_block", "            exclusion_gates=set(block_for_deleting.gates),\n        )\n        self._remove_block", None)
M('c19-subc-inputs-unmapped', 'C19', CIRC, "        for _input in subcircuit.inputs:\n            if _input not in inputs_mapping.values():\n                raise ReplaceSubcircuitError()\n", "", 'C19.SUBC')
M('c19-subc-early-return', 'C19', CIRC, "        check_circuit_has_no_cycles(self)\n\n        return self\n\n    def rename_gate", "        if len(outputs_mapping) > 1:\n            check_circuit_has_no_cycles(self)\n\n        return self\n\n    def rename_gate", 'C19.SUBC')
M('c19-twin-rename-order', 'C19', CIRC, "        if old_label in self._inputs:\n            self._inputs[self.index_of_input(old_label)] = new_label\n\n        if old_label in self._outputs:\n            for idx in self.all_indexes_of_output(old_label):\n                self._outputs[idx] = new_label\n",
  "        if old_label in self._outputs:\n            for idx in self.all_indexes_of_output(old_label):\n                self._outputs[idx] = new_label\n\n        if old_label in self._inputs:\n            self._inputs[self._inputs.index(old_label)] = new_label\n", None)

# ---------------------------------------------------------------- C20
VAL = 'cirbo/core/circuit/validation.py'
M('c20-exit-in-visited', 'C20', CIRC, "            elif gate_states[current_elem.label] == TraverseState.ENTERED:\n                on_exit_hook(current_elem, gate_states)\n                gate_states[current_elem.label] = TraverseState.VISITED\n                queue.pop(pop_index)\n\n            elif gate_states[current_elem.label] == TraverseState.VISITED:\n                queue.pop(pop_index)",
  "            elif gate_states[current_elem.label] == TraverseState.ENTERED:\n                gate_states[current_elem.label] = TraverseState.VISITED\n                queue.pop(pop_index)\n\n            elif gate_states[current_elem.label] == TraverseState.VISITED:\n                on_exit_hook(current_elem, gate_states)\n                queue.pop(pop_index)", 'C20.')
M('c20-enter-after-children', 'C20', CIRC, "                on_enter_hook(current_elem, gate_states)\n                gate_states[current_elem.label] = TraverseState.ENTERED\n\n                for child in _next_getter(current_elem):\n                    on_discover_hook(self.get_gate(child), gate_states)\n                    if gate_states[child] == TraverseState.UNVISITED:\n                        queue.append(child)\n",
  "                gate_states[current_elem.label] = TraverseState.ENTERED\n\n                for child in _next_getter(current_elem):\n                    on_discover_hook(self.get_gate(child), gate_states)\n                    if gate_states[child] == TraverseState.UNVISITED:\n                        queue.append(child)\n                on_enter_hook(current_elem, gate_states)\n", 'C20.')
M('c20-enqueue-entered', 'C20', CIRC, "                    if gate_states[child] == TraverseState.UNVISITED:\n                        queue.append(child)", "                    if gate_states[child] != TraverseState.VISITED:\n                        queue.append(child)", None)  # behaves the same on every acyclic circuit: the structural rule used to flag it
M('c20-dfs-front', 'C20', CIRC, "        elif mode == TraverseMode.DFS:\n            pop_index = -1", "        elif mode == TraverseMode.DFS:\n            pop_index = 0", 'C20.')
M('c20-start-live-list', 'C20', CIRC, "        elif inverse:\n            queue = list(self.inputs)\n        else:\n            queue = list(self.outputs)", "        elif inverse:\n            queue = list(self.inputs)\n        else:\n            queue = self.outputs", 'C20.')
M('c20-unvisited-all', 'C20', CIRC, "            for label in self._gates:\n                if gate_states[label] == TraverseState.UNVISITED:\n                    unvisited_hook(self.get_gate(label), gate_states)", "            for label in self._gates:\n                if gate_states[label] != TraverseState.VISITED:\n                    unvisited_hook(self.get_gate(label), gate_states)", None)  # behaves the same on every acyclic circuit: the structural rule used to flag it
M('c20-unvisited-topsort-dir', 'C20', CIRC, "            for _gate in self.top_sort(inverse=True):\n                if gate_states[_gate.label] == TraverseState.UNVISITED:", "            for _gate in self.top_sort():\n                if gate_states[_gate.label] == TraverseState.UNVISITED:", 'C20.')
M('c20-dual-pred', 'C20', CIRC, "            (lambda elem: len(elem.operands))\n            if inverse\n            else (lambda elem: len(self.get_gate_users(elem.label)))", "            (lambda elem: len(elem.operands))\n            if inverse\n            else (lambda elem: len(elem.operands))", 'C20.')
M('c20-dual-next', 'C20', CIRC, "        _next_getter = (\n            (lambda elem: self.get_gate_users(elem.label))\n            if inverse\n            else (lambda elem: elem.operands)\n        )", "        _next_getter = (\n            (lambda elem: elem.operands)\n            if inverse\n            else (lambda elem: self.get_gate_users(elem.label))\n        )", 'C20.')
M('c20-kahn-set', 'C20', CIRC, "            for successor in _successors_getter(current_elem):\n                indegree_map[successor] -= 1", "            for successor in set(_successors_getter(current_elem)):\n                indegree_map[successor] -= 1", 'C20.')
M('c20-kahn-yield-cond', 'C20', CIRC, "                    queue.append(successor)\n            yield current_elem", "                    queue.append(successor)\n            if current_elem.gate_type != gate.INPUT or inverse:\n                yield current_elem", 'C20.')
M('c20-cycle-visited', 'C20', VAL, "        if gate_states[gate.label] == TraverseState.ENTERED:", "        if gate_states[gate.label] == TraverseState.VISITED:", 'C20.')
M('c20-bfs-hooks', 'C20', CIRC, "            TraverseMode.BFS,\n            start_gates,\n            inverse=inverse,", "            TraverseMode.BFS,\n            start_gates,\n            inverse=not inverse,", 'C20.')
M('c20-twin-rename', 'C20', CIRC, "                for child in _next_getter(current_elem):\n                    on_discover_hook(self.get_gate(child), gate_states)\n                    if gate_states[child] == TraverseState.UNVISITED:\n                        queue.append(child)",
  "                for nxt in _next_getter(current_elem):\n                    on_discover_hook(self.get_gate(nxt), gate_states)\n                    if gate_states[nxt] == TraverseState.UNVISITED:\n                        queue.append(nxt)", None)

# ---------------------------------------------------------------- C11
BEN = 'cirbo/core/parser/bench.py'
M('c11-classify-back', 'C11', BEN, "line.upper().startswith('INPUT(')", "line.upper().startswith('INPUT')", 'C11.CLASSIFY')
M('c11-output-back', 'C11', BEN, "line.upper().startswith('OUTPUT(')", "line.upper().startswith('OUTPUT')", 'C11.CLASSIFY')
M('c11-input-slice', 'C11', BEN, "_gate = line[6:].strip(') \\n')", "_gate = line[7:].strip(') \\n')", 'C11.CLASSIFY')
M('c11-case-sensitive', 'C11', BEN, "_operator_str = line[:_lbkt_idx].strip(' ').upper()", "_operator_str = line[:_lbkt_idx].strip(' ')", 'C11.CLASSIFY')
M('c11-names-leq', 'C11', BEN, "gate.LEQ.name: self._process_leq,", "gate.LEQ.name: self._process_lt,", 'C11.CLASSIFY')
M('c11-handler-swap', 'C11', BEN, "return self._add_gate(out, gate.GT, arg1, arg2)", "return self._add_gate(out, gate.GT, arg2, arg1)", 'C11.CLASSIFY')
M('c11-handler-type', 'C11', BEN, "return self._add_gate(out, gate.NOR, arg1, arg2, *args)", "return self._add_gate(out, gate.NOR, arg1, arg2)", 'C11.CLASSIFY')
M('c11-handler-binary-xor', 'C11', BEN, "    def _process_xor(self, out: str, arg1: str, arg2: str, *args: str):\n        return self._add_gate(out, gate.XOR, arg1, arg2, *args)", "    def _process_xor(self, out: str, arg1: str, arg2: str):\n        return self._add_gate(out, gate.XOR, arg1, arg2)", 'C11')
M('c11-buff-print', 'C11', GATE, '            return f"{self._label} = BUFF({\', \'.join(self._operands)})"', '            return f"{self._label} = BUF({\', \'.join(self._operands)})"', 'C11.NAMES')
M('c11-print-reversed-operands', 'C11', GATE, "return f\"{self._label} = {self.gate_type.name}({', '.join(self._operands)})\"", "return f\"{self._label} = {self.gate_type.name}({', '.join(reversed(self._operands))})\"", 'C11.CLASSIFY')
M('c11-vdd-prefix', 'C11', BEN, "if _body[:3].upper() == VDD_NAME:", "if _body[:2].upper() == VDD_NAME[:2]:", None)
M('c11-vdd-on-name', 'C11', BEN, "if _body[:3].upper() == VDD_NAME:", "if _out[:3].upper() == VDD_NAME:", 'C11.CLASSIFY')
M('c11-print-outputs-sorted', 'C11', CIRC, "f'OUTPUT({output_label})' for output_label in self._outputs", "f'OUTPUT({output_label})' for output_label in sorted(self._outputs)", 'C11.PRINT')
M('c11-print-skip-consts', 'C11', CIRC, "            for _gate in self._gates.values()\n            if _gate.gate_type != gate.INPUT\n        )", "            for _gate in self._gates.values()\n            if _gate.operands\n        )", 'C11.PRINT')
M('c11-eof-dropped', 'C11', 'cirbo/core/parser/abstract.py', "        yield from self._eof()\n", "", None)
M('c11-comment-strip', 'C11', BEN, "if line == '' or line == '\\n' or line[0] == '#':", "if line == '' or line == '\\n' or '#' in line:", None)
M('c11-twin-find-bracket', 'C11', BEN, "_gate = line[6:].strip(') \\n')", "_gate = line[line.find('(') + 1 :].strip(') \\n')", None)

# ---------------------------------------------------------------- C12
TTB = 'cirbo/core/truth_table.py'
PYF = 'cirbo/core/python_function.py'
UTL = 'cirbo/core/utils.py'
BFN = 'cirbo/core/boolean_function.py'
M('c12-carry-back', 'C12', PYF, "                return False\n            old_value = value\n        return True", "                return False\n        return True", 'C12.')
M('c12-carry-tt', 'C12', TTB, "            if not ones_started and (value != inverse):\n                ones_started = True\n            elif ones_started and (value == inverse):\n                return False\n        return True\n\n    def is_symmetric",
  "            if value == inverse and value != self._table[output_index][0]:\n                return False\n        return True\n\n    def is_symmetric", 'C12.')
M('c12-carry-circuit', 'C12', CIRC, "                if change_value:\n                    return False\n                change_value = True\n                current_value = not current_value", "                if current_value != inverse:\n                    return False", 'C12.')
M('c12-proto-missing', 'C12', TTB, "    def is_symmetric_at(self, output_index: int) -> bool:", "    def _is_symmetric_at(self, output_index: int) -> bool:", 'C12.PROTO')
M('c12-proto-param', 'C12', PYF, "    def is_monotone_at(self, output_index: int, inverse: bool = False) -> bool:\n        \"\"\"\n        Check if output `output_index` is monotone (output value doesn't\n        decrease when inputs are enumerated in a classic order: 0000, 0001,\n        0010, 0011 ...).\n\n        :param output_index: index of desired output.\n        :param inverse: if True, will check that output value doesn't\n        increase when inputs are enumerated in classic order.\n        :return: True iff output `output_index` is monotone.\n\n        \"\"\"\n        ones_started = False\n        for x in itertools.product",
  "    def is_monotone_at(self, output_index: int, inverse: bool = True) -> bool:\n        \"\"\"\n        Check if output `output_index` is monotone (output value doesn't\n        decrease when inputs are enumerated in a classic order: 0000, 0001,\n        0010, 0011 ...).\n\n        :param output_index: index of desired output.\n        :param inverse: if True, will check that output value doesn't\n        increase when inputs are enumerated in classic order.\n        :return: True iff output `output_index` is monotone.\n\n        \"\"\"\n        ones_started = False\n        for x in itertools.product", 'C12.PROTO')
M('c12-order-product', 'C12', PYF, "        table = [\n            self.evaluate(x)\n            for x in itertools.product((False, True), repeat=self.input_size)\n        ]", "        table = [\n            self.evaluate(x)\n            for x in itertools.product((True, False), repeat=self.input_size)\n        ]", 'C12.')
M('c12-order-bit', 'C12', UTL, "    _shift = bit_size - bit_idx - 1", "    _shift = bit_idx", 'C12.')
M('c12-order-index', 'C12', UTL, "    return int(''.join(str(int(v)) for v in inputs), 2)", "    return int(''.join(str(int(v)) for v in reversed(list(inputs))), 2)", 'C12.')
M('c12-order-int-wrapper', 'C12', PYF, "            result = canonical_index_to_input(number, output_int_len)\n            if not big_endian:\n                result = result[::-1]\n            return result\n\n        return PyFunction(func=_func, input_size=input_int_len)",
  "            result = canonical_index_to_input(number, output_int_len)\n            if big_endian:\n                result = result[::-1]\n            return result\n\n        return PyFunction(func=_func, input_size=input_int_len)", 'C12.')
M('c12-deleg-any', 'C12', TTB, "        return all(self.is_constant_at(i) for i in range(self.output_size))", "        return any(self.is_constant_at(i) for i in range(self.output_size))", 'C12.')
M('c12-deleg-inverse-dropped', 'C12', TTB, "            self.is_monotone_at(i, inverse=inverse) for i in range(self.output_size)", "            self.is_monotone_at(i) for i in range(self.output_size)", 'C12.')
M('c12-define-nocopy', 'C12', TTB, "        _table_cp = copy.deepcopy(self._table)", "        _table_cp = self._table", 'C12.')
M('c12-define-overwrite', 'C12', PYF, "                if answer[idx] != DontCare:\n                    continue\n", "                if (args_tuple, idx) not in definition:\n                    continue\n", 'C12.')
M('c12-define-self', 'C12', BFN, "        if definition:\n            raise BadDefinitionError(\"Boolean function is already defined.\")\n        return self", "        return self", 'C12.')
CUT = 'cirbo/core/circuit/utils.py'
M('c12-iter-shared-buffer', 'C12', CUT, "        yield list(_inp)", "        yield _inp", 'C12.ITER')
M('c12-iter-weight-off', 'C12', CUT, "itertools.combinations(range(input_size), number_of_true)", "itertools.combinations(range(1, input_size), number_of_true)", 'C12.ITER')
M('c12-iter-neg-dropped', 'C12', CUT, "            _inp[idx] = True ^ _negations[idx]", "            _inp[idx] = True", 'C12.ITER')
M('c12-twin-iter-tuple', 'C12', CUT, "        yield list(_inp)", "        yield [v for v in _inp]", None)
M('c12-twin-prev-name', 'C12', PYF, "            old_value = value\n        return True", "            prev = value\n            old_value = prev\n        return True", None)

# ---------------------------------------------------------------- C16
ENCF = 'cirbo/circuits_db/circuits_encoding.py'
BITF = 'cirbo/circuits_db/bit_io.py'
BDF = 'cirbo/circuits_db/binary_dict_io.py'
M('c16-ids-dup', 'C16', ENCF, "    gate.LT: 11,", "    gate.LT: 10,", 'C16.IDS')
M('c16-ids-overflow', 'C16', ENCF, "    gate.ALWAYS_FALSE: 13,", "    gate.ALWAYS_FALSE: 16,", 'C16.IDS')
M('c16-arity-guard-dropped', 'C16', ENCF, "    if len(gate_.operands) != _get_arity(gate_.gate_type):", "    if False:", 'C16.ARITY')
M('c16-arity-not-two', 'C16', ENCF, "    if gate_type == gate.IFF or gate_type == gate.NOT:\n        return 1", "    if gate_type == gate.IFF:\n        return 1", 'C16.ARITY')
M('c16-decoder-arity', 'C16', ENCF, "    for _ in range(_get_arity(gate_type)):", "    for _ in range(2):", 'C16.ARITY')
M('c16-order-storage', 'C16', ENCF, "            if not pending:\n                result[label] = len(result)", "            if True:\n                result[label] = len(result)", 'C16.ORDER')
M('c16-width-inputs', 'C16', ENCF, "        return max(\n            len(circuit.inputs), len(circuit.outputs), circuit.size - 1\n        ).bit_length()", "        return max(len(circuit.inputs), circuit.size - 1).bit_length()", 'C16.WIDTH')
M('c16-mirror-param-order', 'C16', ENCF, "    inputs_count = bit_reader.read_number(word_size)\n    outputs_count = bit_reader.read_number(word_size)", "    outputs_count = bit_reader.read_number(word_size)\n    inputs_count = bit_reader.read_number(word_size)", 'C16.MIRROR')
M('c16-mirror-type-width', 'C16', ENCF, "    gate_type_id = bit_reader.read_number(GATE_TYPE_BIT_SIZE)", "    gate_type_id = bit_reader.read_number(word_size)", 'C16.MIRROR')
M('c16-bit-msb', 'C16', BITF, "            number |= bit << i", "            number |= bit << (bit_length - 1 - i)", 'C16.MIRROR')
M('c16-bit-pos', 'C16', BITF, "        if self._bit_pos == 8:\n            self._bit_pos = 0\n            self._byte_pos += 1", "        if self._bit_pos == 7:\n            self._bit_pos = 0\n            self._byte_pos += 1", 'C16.MIRROR')
M('c16-bit-overflow-silent', 'C16', BITF, "        if (number >> bit_length) != 0:", "        if (number >> (bit_length + 1)) != 0:", 'C16.MIRROR')
M('c16-dict-len-chars', 'C16', BDF, "        _write_unsigned_number(stream, len(key_bytes), DICT_KEY_BYTE_SIZE)", "        _write_unsigned_number(stream, len(key), DICT_KEY_BYTE_SIZE)", 'C16')
M('c16-dict-sizes', 'C16', BDF, "        val_len = _read_unsigned_number(stream, DICT_VALUE_BYTE_SIZE)", "        val_len = _read_unsigned_number(stream, DICT_KEY_BYTE_SIZE + 2)", 'C16.MIRROR')
M('c16-exact-no-eof', 'C16', BDF, "    _expect_eof(stream)\n    return data", "    return data", 'C16.EXACT')
M('c16-exact-short-read', 'C16', BDF, "    if len(arr) != length:\n        raise BinaryDictIOError(\"Unexpected EOF\")\n    return arr", "    return arr", 'C16.EXACT')
M('c16-outputs-order', 'C16', ENCF, "    for label in circuit.outputs:\n        bit_writer.write_number(gate_identifiers[label], word_size)", "    for label in sorted(circuit.outputs):\n        bit_writer.write_number(gate_identifiers[label], word_size)", 'C16.MIRROR')
M('c16-twin-topsort', 'C16', ENCF, "    in_progress: tp.Set[Label] = set()\n    for gate_label in circuit.gates:\n        stack = [gate_label]", "    for _g in circuit.top_sort(inverse=True):\n        if _g.label not in result:\n            result[_g.label] = len(result)\n    in_progress: tp.Set[Label] = set()\n    for gate_label in circuit.gates:\n        stack = [gate_label]", None)

# ---------------------------------------------------------------- C17
NRM = 'cirbo/circuits_db/normalization.py'
DBF = 'cirbo/circuits_db/db.py'
M('c17-mirror-swap', 'C17', NRM, "        self._undo_outputs_deletion(circuit)\n        self._unsort_outputs(circuit)", "        self._unsort_outputs(circuit)\n        self._undo_outputs_deletion(circuit)", 'C17')
M('c17-flag-inverted', 'C17', NRM, "            if tt[0]:\n                negations.append(True)", "            if tt[0]:\n                negations.append(False)", 'C17.NORM')
M('c17-negate-last', 'C17', NRM, "            if tt[0]:", "            if tt[-1]:", 'C17.NORM')
M('c17-unsort-inverse', 'C17', NRM, "            unsorted_outputs[sorted_index] = circuit.outputs[original_index]", "            unsorted_outputs[original_index] = circuit.outputs[sorted_index]", 'C17.NORM')
M('c17-mapping-off', 'C17', NRM, "            mapping.append(len(new_truth_table) - 1)", "            mapping.append(len(new_truth_table))", 'C17.NORM')
M('c17-dedupe-first', 'C17', NRM, "            if truth_table[i] != truth_table[i - 1]:", "            if truth_table[i] != truth_table[0]:", 'C17.NORM')
M('c17-denorm-no-not', 'C17', NRM, "            if negation:\n                output_not = _negate_gate(circuit, output)\n                new_outputs.append(output_not)", "            if negation:\n                new_outputs.append(output)", 'C17.NORM')
M('c17-min-gt', 'C17', DBF, "            if result_size is None or circuit_size < result_size:", "            if result_size is None or circuit_size > result_size:", 'C17.MIN')
M('c17-min-first', 'C17', DBF, "            if result_size is None or circuit_size < result_size:", "            if result_size is None:", 'C17.MIN')
M('c17-min-dc-true', 'C17', DBF, "            for i, val in enumerate(substitution):\n                j, k = undefined_positions[i]\n                defined_truth_table[j][k] = val", "            for i, val in enumerate(substitution):\n                j, k = undefined_positions[i]\n                defined_truth_table[k % len(defined_truth_table)][k] = val", 'C17.MIN')
M('c17-min-none-stops', 'C17', DBF, "            if circuit is None:\n                continue", "            if circuit is None:\n                break", 'C17.MIN')
M('c17-key-unnormalised', 'C17', DBF, "        normalized_truth_table = normalization.truth_table\n        label = _truth_table_to_label(normalized_truth_table)\n        circuit = self.get_by_label(label)", "        normalized_truth_table = normalization.truth_table\n        label = _truth_table_to_label(truth_table)\n        circuit = self.get_by_label(label)", 'C17.KEY')
M('c17-key-join', 'C17', DBF, "    return '_'.join(str_truth_tables)", "    return ''.join(str_truth_tables)", 'C17.KEY')
M('c17-twin-rename', 'C17', NRM, "        for i, mapped_index in enumerate(self.mapping):\n            original_outputs[i] = circuit.outputs[mapped_index]", "        for pos, src_idx in enumerate(self.mapping):\n            original_outputs[pos] = circuit.outputs[src_idx]", None)

# ---------------------------------------------------------------- C06
M('c06-swap-bc', 'C06', SEARCH, "(1 if a else -1) * self._gate_type_variable(gate, b, c),", "(1 if a else -1) * self._gate_type_variable(gate, c, b),", 'C06.ENC')
M('c06-forbidden-index', 'C06', SEARCH, "* self._gate_type_variable(gate, i // 2, i % 2)", "* self._gate_type_variable(gate, i % 2, i // 2)", 'C06.ENC')
M('c06-input-shift', 'C06', SEARCH, "if (t >> (self._boolean_function.input_size - 1 - input_gate)) & 1:", "if (t >> input_gate) & 1:", 'C06.ENC')
M('c06-dc-any', 'C06', SEARCH, "        return all((o == DontCare for o in output_col))", "        return any((o == DontCare for o in output_col))", 'C06.ENC')
M('c06-output-sign', 'C06', SEARCH, "(1 if self._output_truth_tables[h][t] else -1)", "(-1 if self._output_truth_tables[h][t] else 1)", 'C06.ENC')
M('c06-normalized-11', 'C06', SEARCH, "self._cnf.append([-self._gate_type_variable(gate, 0, 0)])", "self._cnf.append([-self._gate_type_variable(gate, 1, 1)])", 'C06.ENC')
M('c06-exactly-one-atmost-missing', 'C06', SEARCH, "        self._cnf.extend([[-a, -b] for (a, b) in itertools.combinations(literals, 2)])", "        pass", 'C06.ENC')
M('c06-forbidden-basis', 'C06', SEARCH, "list(set(Basis.FULL.value) - set(self._basis_list))", "list(set(Basis.XAIG.value) - set(self._basis_list))", 'C06.ENC')
M('c06-sign-a', 'C06', SEARCH, "(-1 if a else 1) * self._gate_value_variable(gate, t),", "(1 if a else -1) * self._gate_value_variable(gate, t),", 'C06.ENC')
M('c06-basis-aig-xor', 'C06', SEARCH, "        Operation.geq_,\n        Operation.leq_,\n    ]\n    XAIG = [", "        Operation.geq_,\n        Operation.leq_,\n        Operation.xor_,\n    ]\n    XAIG = [", 'C06.SEM')
M('c06-str-basis', 'C06', SEARCH, "    'AIG': Basis.AIG,\n    'XAIG': Basis.XAIG,", "    'AIG': Basis.XAIG,\n    'XAIG': Basis.AIG,", 'C06.SEM')
M('c06-fix-back', 'C06', SEARCH, "                if first_predecessor is not None\n                else second_predecessor", "                if first_predecessor is not None\n                else first_predecessor", 'C06.FIX')
M('c06-fix-type-bits', 'C06', SEARCH, "* self._gate_type_variable(gate, int(a), int(b))", "* self._gate_type_variable(gate, int(b), int(a))", 'C06.FIX')
M('c06-fix-db-flag', 'C06', SEARCH, "        self._need_check_db = False\n\n        if from_gate not in self._gates:", "        if from_gate not in self._gates:", 'C06.FIX')
M('c06-forbid-wire-minmax', 'C06', SEARCH, "to_gate, min(other, from_gate), max(other, from_gate)", "to_gate, min(other, to_gate - 1), max(other, from_gate)", 'C06.FIX')
M('c06-forbid-wire-break', 'C06', SEARCH, "            if other == from_gate:\n                continue", "            if other == from_gate:\n                break", 'C06.FIX')
M('c06-decode-order', 'C06', SEARCH, "                    (str(first_predecessor_str), str(second_predecessor_str)),", "                    (str(second_predecessor_str), str(first_predecessor_str)),", 'C06.DEC')
M('c06-decode-tt', 'C06', SEARCH, "    (0, 1, 0, 0): LT,\n    (0, 1, 0, 1): RIFF,", "    (0, 1, 0, 0): RIFF,\n    (0, 1, 0, 1): LT,", 'C06')
M('c06-twin-rename-abc', 'C06', SEARCH, "                for a, b, c in itertools.product(range(2), repeat=3):\n                    for t in range(1 << self._boolean_function.input_size):\n                        if self._is_dont_cares_input(t):\n                            continue\n                        self._cnf.append(\n                            [\n                                -self._predecessors_variable(\n                                    gate, first_pred, second_pred\n                                ),\n                                (-1 if a else 1) * self._gate_value_variable(gate, t),\n                                (-1 if b else 1)\n                                * self._gate_value_variable(first_pred, t),\n                                (-1 if c else 1)\n                                * self._gate_value_variable(second_pred, t),\n                                (1 if a else -1) * self._gate_type_variable(gate, b, c),",
  "                for va, vb, vc in itertools.product(range(2), repeat=3):\n                    for t in range(1 << self._boolean_function.input_size):\n                        if self._is_dont_cares_input(t):\n                            continue\n                        self._cnf.append(\n                            [\n                                (-1 if vb else 1)\n                                * self._gate_value_variable(first_pred, t),\n                                -self._predecessors_variable(\n                                    gate, first_pred, second_pred\n                                ),\n                                (-1 if va else 1) * self._gate_value_variable(gate, t),\n                                (-1 if vc else 1)\n                                * self._gate_value_variable(second_pred, t),\n                                (1 if va else -1) * self._gate_type_variable(gate, vb, vc),", None)

# ---------------------------------------------------------------- C07
SUMF = 'cirbo/synthesis/generation/arithmetics/summation.py'
M('c07-gadget-sum3', 'C07', SUMF, "    g3 = add_gate_from_tt(circuit, g1, g2, '0111')\n    g4 = add_gate_from_tt(circuit, g1, x3, '0110')", "    g3 = add_gate_from_tt(circuit, g1, g2, '0110')\n    g4 = add_gate_from_tt(circuit, g1, x3, '0110')", 'C07.GADGET')
M('c07-gadget-mdfa-swap', 'C07', SUMF, "    g8 = add_gate_from_tt(circuit, g2, g7, '0110')\n    return list([g6, g4, g8])\n\n\n# an MDFA block with z=0", "    g8 = add_gate_from_tt(circuit, g2, g7, '0110')\n    return list([g6, g8, g4])\n\n\n# an MDFA block with z=0", 'C07.GADGET')
M('c07-gadget-sum2-aig', 'C07', SUMF, "    g3 = add_gate_from_tt(circuit, g1, g2, '0010')\n    return list([g3, g2])", "    g3 = add_gate_from_tt(circuit, g1, g2, '0100')\n    return list([g3, g2])", 'C07.GADGET')
M('c07-gadget-stockmeyer', 'C07', SUMF, "    g2 = add_gate_from_tt(circuit, x2, x23, '0010')", "    g2 = add_gate_from_tt(circuit, x23, x2, '0010')", 'C07.GADGET')
M('c07-ts-back', 'C07', SUMF, "    if isinstance(basis, str):\n        basis = GenerationBasis(basis.upper())\n\n    res = []\n\n    single = SortedList(list(input_labels_with_pow))", "    res = []\n\n    single = SortedList(list(input_labels_with_pow))", 'C07.BASIS-TS')
M('c07-ts-no-upper', 'C07', SUMF, "    if isinstance(basis, str):\n        _basis = GenerationBasis(basis.upper())\n    else:\n        _basis = basis", "    _basis = basis", 'C07.BASIS-TS')
M('c07-reach-aig-branch', 'C07', SUMF, "                now_level_gate, next_level_gate = add_sum3_aig(circuit, [x, y, z])\n                for _ in range(3):\n                    now_solo.pop()\n                now_solo.append(now_level_gate)\n                single.add((now_level + 1, next_level_gate))\n\n            if len(now_solo) == 2:\n                x, y = now_solo[-1], now_solo[-2]\n                now_level_gate, next_level_gate = add_sum2_aig(circuit, [x, y])",
  "                now_level_gate, next_level_gate = add_sum3_aig(circuit, [x, y, z])\n                for _ in range(3):\n                    now_solo.pop()\n                now_solo.append(now_level_gate)\n                single.add((now_level + 1, next_level_gate))\n\n            if len(now_solo) == 2:\n                x, y = now_solo[-1], now_solo[-2]\n                now_level_gate, next_level_gate = add_sum2(circuit, [x, y])", 'C07.BASIS-REACH')
M('c07-reach-pow2', 'C07', SUMF, "        out.append(add_sum_n_bits(circuit, input_labels[0:2], basis=basis))", "        out.append(add_sum2(circuit, input_labels[0:2]))", 'C07.BASIS-REACH')
M('c07-reach-aig-gadget', 'C07', SUMF, "    g4 = add_gate_from_tt(circuit, g3, x3, '0111')\n    g5 = add_gate_from_tt(circuit, g3, x3, '0001')\n    g6 = add_gate_from_tt(circuit, g4, g5, '0010')", "    g6 = add_gate_from_tt(circuit, g3, x3, '0110')\n    g5 = add_gate_from_tt(circuit, g3, x3, '0001')", 'C07.BASIS-REACH')
M('c07-addonly-private', 'C07', SUMF, "    [x1, x2] = input_labels\n    g1 = add_gate_from_tt(circuit, x1, x2, '0110')\n    g2 = add_gate_from_tt(circuit, x1, x2, '0001')", "    [x1, x2] = input_labels\n    g1 = add_gate_from_tt(circuit, x1, x2, '0110')\n    g2 = x1 + '_and_' + x2\n    circuit._gates[g2] = gate.Gate(g2, gate.AND, (x1, x2))", 'C07.ADD-ONLY')
M('c07-addonly-remove', 'C07', SUMF, "        res.append(now[0])\n        now = next\n    return reverse_if_big_endian(res, big_endian)", "        res.append(now[0])\n        now = next\n    for label in list(circuit.gates):\n        if not circuit.get_gate_users(label) and label not in res and label not in circuit.outputs:\n            circuit.remove_gate(label)\n    return reverse_if_big_endian(res, big_endian)", 'C07.ADD-ONLY')
M('c07-args-reverse-inplace', 'C07', SUMF, "    input_labels_a = list(input_labels_a)\n    input_labels_b = list(input_labels_b)\n    n = len(input_labels_a)\n    m = len(input_labels_b)\n    if big_endian:\n        input_labels_a.reverse()", "    input_labels_b = list(input_labels_b)\n    n = len(input_labels_a)\n    m = len(input_labels_b)\n    if big_endian:\n        input_labels_a.reverse()", 'C07.ARGS')
M('c07-args-pop', 'C07', SUMF, "    now = list(input_labels)\n    res = []\n    while len(now) > 0:\n        next = []\n        while len(now) > 2:\n            x, y = add_sum3_aig", "    now = input_labels\n    res = []\n    while len(now) > 0:\n        next = []\n        while len(now) > 2:\n            x, y = add_sum3_aig", None)
M('c07-endian-return', 'C07', SUMF, "    d[n] = [d[n - 1][1]]\n    return reverse_if_big_endian([d[i][0] for i in range(n + 1)], big_endian)", "    d[n] = [d[n - 1][1]]\n    return [d[i][0] for i in range(n + 1)]", 'C07.ENDIAN')
M('c07-endian-shift-early', 'C07', SUMF, "        for i in range(m):\n            d[i + shift] = [input_labels_b[i]]\n        return reverse_if_big_endian([i[0] for i in d], big_endian)", "        for i in range(m):\n            d[i + shift] = [input_labels_b[i]]\n        return [i[0] for i in d]", 'C07.ENDIAN')
M('c07-endian-one-operand', 'C07', SUMF, "    if big_endian:\n        input_labels_a.reverse()\n        input_labels_b.reverse()\n\n    if n < m:", "    if big_endian:\n        input_labels_a.reverse()\n\n    if n < m:", 'C07.ENDIAN')
M('c07-placeholder-back', 'C07', SUMF, "            for i in range(n, shift):\n                d[i] = [zero]", "            for i in range(n, shift - n):\n                d[i] = [zero]", 'C07.PLACEHOLDER')
M('c07-placeholder-last', 'C07', SUMF, "    d[n] = [d[n - 1][1]]\n    return reverse_if_big_endian([d[i][0] for i in range(n + 1)], big_endian)", "    return reverse_if_big_endian([d[i][0] for i in range(n + 1)], big_endian)", 'C07.PLACEHOLDER')
M('c07-twin-slice-copy', 'C07', SUMF, "    now = list(input_labels)\n    if big_endian:\n        now.reverse()\n    res = []", "    now = [*input_labels]\n    if big_endian:\n        now.reverse()\n    res = []", None)
M('c07-twin-rename-gates', 'C07', SUMF, "    g1 = add_gate_from_tt(circuit, x1, x2, '0110')\n    g2 = add_gate_from_tt(circuit, x1, x2, '0001')\n    return list([g1, g2])", "    s_ = add_gate_from_tt(circuit, x1, x2, '0110')\n    c_ = add_gate_from_tt(circuit, x1, x2, '0001')\n    return [s_, c_]", None)

# ---------------------------------------------------------------- C08
MULF = 'cirbo/synthesis/generation/arithmetics/multiplication.py'
SQF = 'cirbo/synthesis/generation/arithmetics/square.py'
M('c08-reg-missing', 'C08', MULF, "    MulMode.WALLACE: add_mul_wallace,\n", "", 'C08.REG')
M('c08-reg-signature', 'C08', SQF, "def add_square_pow2_m1(\n    circuit: Circuit, input_labels: tp.Iterable[gate.Label], *, big_endian: bool = False\n)", "def add_square_pow2_m1(\n    circuit: Circuit, input_labels: tp.Iterable[gate.Label], *, big_endian: bool = True\n)", 'C08.REG')
M('c08-endian-n1', 'C08', MULF, "    if n == 1:\n        return reverse_if_big_endian([c[i][0] for i in range(m)], big_endian)\n    if m == 1:\n        return reverse_if_big_endian(c[0], big_endian)\n\n    out = [[[PLACEHOLDER_STR]]", "    if n == 1:\n        return [c[i][0] for i in range(m)]\n    if m == 1:\n        return reverse_if_big_endian(c[0], big_endian)\n\n    out = [[[PLACEHOLDER_STR]]", 'C08.ENDIAN')
M('c08-endian-double', 'C08', MULF, "    res = add_sum_two_numbers_with_shift(circuit, 1, c[0], c[1])\n    for i in range(2, m):", "    res = add_sum_two_numbers_with_shift(circuit, 1, c[0], c[1], big_endian=big_endian)\n    for i in range(2, m):", 'C08.ENDIAN')
M('c08-endian-square', 'C08', SQF, "    final_res = final_res[: 2 * n]\n    return reverse_if_big_endian(final_res, big_endian)", "    final_res = final_res[: 2 * n]\n    return final_res", 'C08.ENDIAN')
M('c08-args-inplace', 'C08', SQF, "    input_labels = list(input_labels)\n    n = len(input_labels)\n    if big_endian:\n        input_labels.reverse()\n\n    if n == 1:", "    n = len(input_labels)\n    if big_endian:\n        input_labels.reverse()\n\n    if n == 1:", 'C08.ARGS')
M('c08-args-pad', 'C08', MULF, "    input_labels_a = list(input_labels_a)\n    input_labels_b = list(input_labels_b)\n    if big_endian:\n        input_labels_a.reverse()\n        input_labels_b.reverse()\n    out_size = len(input_labels_a) + len(input_labels_b)\n    if len(input_labels_a) == 1 or len(input_labels_b) == 1:\n        out_size -= 1\n\n    n = len(input_labels_a)\n    if n < len(input_labels_b):\n        input_labels_a, input_labels_b = input_labels_b, input_labels_a\n        n = len(input_labels_a)\n    while n != len(input_labels_b):\n        input_labels_b.append(\n            add_gate_from_tt(circuit, input_labels_a[0], input_labels_a[0], '0110')\n        )\n\n    if n < 20 and n != 18:\n        return reverse_if_big_endian(\n            add_mul_pow2_m1",
  "    input_labels_a = list(input_labels_a)\n    if big_endian:\n        input_labels_a.reverse()\n        input_labels_b = list(reversed(input_labels_b))\n    out_size = len(input_labels_a) + len(input_labels_b)\n    if len(input_labels_a) == 1 or len(input_labels_b) == 1:\n        out_size -= 1\n\n    n = len(input_labels_a)\n    if n < len(input_labels_b):\n        input_labels_a, input_labels_b = input_labels_b, input_labels_a\n        n = len(input_labels_a)\n    while n != len(input_labels_b):\n        input_labels_b.append(\n            add_gate_from_tt(circuit, input_labels_a[0], input_labels_a[0], '0110')\n        )\n\n    if n < 20 and n != 18:\n        return reverse_if_big_endian(\n            add_mul_pow2_m1", 'C08.ARGS')
M('c08-addonly-setout', 'C08', MULF, "    out = add_sum_n_weighted_bits(circuit, powers_with_labels)\n    return reverse_if_big_endian([i[1] for i in out], big_endian)", "    out = add_sum_n_weighted_bits(circuit, powers_with_labels)\n    circuit.into_bench()\n    return reverse_if_big_endian([i[1] for i in out], big_endian)", 'C08.ADD-ONLY')
M('c08-placeholder-alter', 'C08', MULF, "    c = [[PLACEHOLDER_STR] * n for _ in range(m)]\n    for i in range(m):\n        for j in range(n):\n            c[i][j] = add_gate_from_tt(\n                circuit, input_labels_a[j], input_labels_b[i], '0001'\n            )\n\n    if m == 1:\n        return reverse_if_big_endian(c[0], big_endian)", "    c = [[PLACEHOLDER_STR] * n for _ in range(m)]\n    for i in range(m):\n        for j in range(1, n):\n            c[i][j] = add_gate_from_tt(\n                circuit, input_labels_a[j], input_labels_b[i], '0001'\n            )\n\n    if m == 1:\n        return reverse_if_big_endian(c[0], big_endian)", 'C08.PLACEHOLDER')
M('c08-twin-kwarg', 'C08', MULF, "    if m == 1:\n        return reverse_if_big_endian(c[0], big_endian)\n\n    res = add_sum_two_numbers_with_shift(circuit, 1, c[0], c[1])", "    if m == 1:\n        row0 = c[0]\n        return reverse_if_big_endian(row0, big_endian)\n\n    res = add_sum_two_numbers_with_shift(circuit, 1, c[0], c[1])", None)

# ---------------------------------------------------------------- C09
SUBF = 'cirbo/synthesis/generation/arithmetics/subtraction.py'
M('c09-gadget-sub2', 'C09', SUBF, "    g2 = add_gate_from_tt(circuit, x1, x2, '0100')\n\n    return list([g1, g2])", "    g2 = add_gate_from_tt(circuit, x1, x2, '0010')\n\n    return list([g1, g2])", 'C09.GADGET')
M('c09-gadget-sub3', 'C09', SUBF, "    x7 = add_gate_from_tt(circuit, x0, x5, '0110')\n    return list([x6, x7])", "    x7 = add_gate_from_tt(circuit, x0, x5, '0110')\n    return list([x7, x6])", 'C09.GADGET')
M('c09-gadget-ite', 'C09', GENG, "    circuit.add_gate(Gate(tmp[2], gate.AND, (tmp[1], else_label)))", "    circuit.add_gate(Gate(tmp[2], gate.AND, (tmp[1], then_label)))", 'C09.GADGET')
M('c09-gadget-pairwise-index', 'C09', GENG, "            if_labels[i],\n            then_labels[i],\n            else_labels[i],", "            if_labels[i],\n            then_labels[i],\n            else_labels[n - 1 - i],", 'C09.GADGET')
M('c09-outguard-xor', 'C09', GENG, "        circuit.add_gate(Gate(result_labels[i], gate.XOR, (x_labels[i], y_labels[i])))\n        if add_outputs:\n            circuit.mark_as_output(result_labels[i])", "        circuit.add_gate(Gate(result_labels[i], gate.XOR, (x_labels[i], y_labels[i])))\n        circuit.mark_as_output(result_labels[i])", 'C09')
M('c09-outguard-plus-one', 'C09', GENG, "    if add_outputs:\n        for result_label in result_labels:\n            circuit.mark_as_output(result_label)\n    return result_labels", "    for result_label in result_labels:\n        circuit.mark_as_output(result_label)\n    return result_labels", 'C09.OUT-GUARD')
M('c09-outguard-forward', 'C09', GENG, "            result_label=result_labels[i],\n            add_outputs=add_outputs,", "            result_label=result_labels[i],\n            add_outputs=True,", 'C09')
M('c09-hostin-back', 'C09', GENG, "    if add_outputs:\n        for result_label in result_labels:\n            circuit.mark_as_output(result_label)\n    return result_labels", "    circuit.order_inputs(input_labels)\n    if add_outputs:\n        for result_label in result_labels:\n            circuit.mark_as_output(result_label)\n    return result_labels", 'C09.HOST-IN')
M('c09-addonly-rename', 'C09', 'cirbo/synthesis/generation/arithmetics/equality.py', "    last_label = generate_random_label(circuit)\n    if len(gates_for_and) == 1:\n        return gates_for_and[0]", "    last_label = generate_random_label(circuit)\n    if len(gates_for_and) == 1:\n        circuit.rename_gate(gates_for_and[0], last_label)\n        return last_label", 'C09.ADD-ONLY')
M('c09-args-div', 'C09', 'cirbo/synthesis/generation/arithmetics/div_mod.py', "    input_labels_a = list(input_labels_a)\n    input_labels_b = list(input_labels_b)\n    if big_endian:", "    input_labels_b = list(input_labels_b)\n    if big_endian:", 'C09.ARGS')
M('c09-args-compare-pad', 'C09', SUBF, "    input_labels_a = list(input_labels_a)\n    input_labels_b = list(input_labels_b)\n\n    if big_endian:\n        input_labels_a.reverse()\n        input_labels_b.reverse()\n\n    # pad", "    input_labels_a = list(input_labels_a)\n\n    if big_endian:\n        input_labels_a.reverse()\n        input_labels_b.reverse()\n\n    # pad", 'C09.ARGS')
M('c09-endian-sub', 'C09', SUBF, "            res[i], bal[i] = add_sub2(circuit, [input_labels_a[i], bal[i - 1]])\n\n    return reverse_if_big_endian(res, big_endian)", "            res[i], bal[i] = add_sub2(circuit, [input_labels_a[i], bal[i - 1]])\n\n    return res", 'C09.ENDIAN')
M('c09-endian-div', 'C09', 'cirbo/synthesis/generation/arithmetics/div_mod.py', "    if big_endian:\n        result.reverse()\n        now.reverse()\n\n    return result, now", "    if big_endian:\n        result.reverse()\n\n    return result, now", 'C09.ENDIAN')
M('c09-endian-sqrt', 'C09', 'cirbo/synthesis/generation/arithmetics/sqrt.py', "    return reverse_if_big_endian(c[:half], big_endian)", "    return c[:half]", 'C09.ENDIAN')
M('c09-placeholder-sub', 'C09', SUBF, "    for i in range(1, n):\n        if i < m:\n            res[i], bal[i] = add_sub3(", "    for i in range(1, n - 1):\n        if i < m:\n            res[i], bal[i] = add_sub3(", 'C09.PLACEHOLDER')
M('c09-twin-guard-var', 'C09', GENG, "    for i in range(n):\n        circuit.add_gate(Gate(result_labels[i], gate.XOR, (x_labels[i], y_labels[i])))\n        if add_outputs:\n            circuit.mark_as_output(result_labels[i])\n    return result_labels", "    for i in range(n):\n        circuit.add_gate(Gate(result_labels[i], gate.XOR, (x_labels[i], y_labels[i])))\n    if add_outputs:\n        for r_ in result_labels:\n            circuit.mark_as_output(r_)\n    return result_labels", None)

# ---------------------------------------------------------------- C04
M('c04-sem-gt', 'C04', SUBC, "return self.max_pattern - ((self.max_pattern - operands[0]) | operands[1])", "return self.max_pattern - (operands[0] | (self.max_pattern - operands[1]))", 'C04.SEM')
M('c04-sem-nary', 'C04', SUBC, "            return functools.reduce(operator.or_, operands)\n        elif oper_type == 'NOR':", "            return operands[0] | operands[1]\n        elif oper_type == 'NOR':", 'C04.SEM')
M('c04-sem-else', 'C04', SUBC, "        else:\n            raise UnsupportedOperationError()", "        else:\n            return operands[0]", 'C04.SEM')
M('c04-pol-second', 'C04', SUBC, "                for user in new_subcircuit.get_gate_users(new_gate):\n                    if new_subcircuit.get_gate(user).gate_type.name == 'NOT':\n                        output_labels_mapping[output] = user\n                        new_subcircuit.mark_as_output(user)\n                        break\n                else:",
  "                for user in new_subcircuit.get_gate_users(new_gate):\n                    if new_subcircuit.get_gate(user).gate_type.name != 'NOT':\n                        output_labels_mapping[output] = user\n                        new_subcircuit.mark_as_output(user)\n                        break\n                else:", 'C04.')
M('c04-snap-late', 'C04', SUBC, "    initial_circuit: Circuit = copy.deepcopy(circuit)\n    subcircuits: list[_Subcircuit] = _get_subcircuits(\n        circuit, cuts, cut_nodes, max_subcircuit_size, cut_size\n    )\n    subcircuits = _eval_dont_cares(circuit, subcircuits)",
  "    subcircuits: list[_Subcircuit] = _get_subcircuits(\n        circuit, cuts, cut_nodes, max_subcircuit_size, cut_size\n    )\n    circuit.order_outputs([])\n    initial_circuit: Circuit = copy.deepcopy(circuit)\n    subcircuits = _eval_dont_cares(circuit, subcircuits)", None)
M('c04-snap-shallow', 'C04', SUBC, "    initial_circuit: Circuit = copy.deepcopy(circuit)", "    initial_circuit: Circuit = circuit", None)
M('c04-validation-inverted', 'C04', SUBC, "        if is_circuit_satisfiable(miter_circuit).answer:\n            raise FailedValidationError()", "        if not is_circuit_satisfiable(miter_circuit).answer:\n            raise FailedValidationError()", 'C04.')
M('c04-size-same', 'C04', SUBC, "                TruthTableModel(outputs_tt),\n                size - 1,", "                TruthTableModel(outputs_tt),\n                size,", None)
M('c04-size-basis', 'C04', SUBC, "                size - 1,\n                basis=_basis,", "                size - 1,", 'C04.')
# Mutants whose expectation is None although they were first written to fire (c05-no-early-return, c07-args-pop, c11-eof-dropped,
# c18-cleanup-order, c18-idem-*, c18-composition-eq, c19-subc-restore-before / -no-guard-exclusion / -no-overlap-check,
# c03-iface-filter-outputs, c04-snap-*, c04-size-same, c04-revert-f03): the shape rule that caught them demanded more than the property
# states (a memo, an argument copy, a validation order, a declared flag); the folds show the stated behaviour unchanged on the whole
# family, so silence is the right verdict.

# revert of the repair F36
M('c02-revert-f36', 'C02', CIRC, "            if (\n                gate_label in block.gates\n                or gate_label in block.inputs\n                or gate_label in block.outputs\n            ):", "            if gate_label in block.gates or gate_label in block.inputs:", 'C02.HIST')
# reverts of the repairs F02/F03/F23/F30-F33, F35 (each must be reported again)
M('c04-revert-f03', 'C04', SUBC, "                    circuit._remove_user(output, user)\n                    circuit._add_user(new_output, user)", "                    circuit._gate_to_users[new_output].append(user)", None)
M('c04-revert-f02', 'C04', SUBC, "                outputs_negation_mapping[output] = found_patterns[MAX_PATTERN - pattern]", "                outputs_mapping[output] = found_patterns[MAX_PATTERN - pattern]", 'C04.FOLD')
M('c04-revert-f23', 'C04', SUBC, "                    else input_labels_mapping[negation_gate]", "                    else output_labels_mapping[negation_gate]", 'C04.FOLD')
M('c04-revert-f30', 'C04', SUBC, "            is_output: bool = node in outputs_set or not users", "            is_output: bool = node in outputs_set", 'C04.FOLD')
M('c04-revert-f31', 'C04', SUBC, "circuit.evaluate_full_circuit(assignment).items()", "circuit.evaluate_circuit(assignment).items()", 'C04.FOLD')
M('c04-revert-f32', 'C04', SUBC, "            if i < len(labels_to_remove):\n                subcircuit.rename_gate(node.label, labels_to_remove[i])", "            subcircuit.rename_gate(node.label, labels_to_remove[i])", 'C04.FOLD')
M('c04-revert-f33', 'C04', SUBC, "            node_states[gate] = _NodeState.REMOVED\n\n        circuit = new_circuit", "            pass\n\n        circuit = new_circuit", 'C04.FOLD')
M('c04-revert-f35', 'C04', SUBC, "                    if user not in cut_nodes[cut] or user in inputs:", "                    if user not in cut_nodes[cut]:", 'C04.FOLD')
M('c04-size-all-outputs', 'C04', SUBC, "            if subcircuit.outputs[i] in filtered_outputs\n        ]", "            if subcircuit.outputs[i] in subcircuit.outputs\n        ]", 'C04.')
M('c04-twin-rename', 'C04', SUBC, "    initial_circuit: Circuit = copy.deepcopy(circuit)", "    initial_circuit = copy.deepcopy(circuit)", None)

# C12.FOLD
M('c12-fold-sym-range', 'C12', TTB, "        for number_of_true in range(self.input_size + 1):\n\n            _iter = iter(input_iterator_with_fixed_sum(self.input_size, number_of_true))\n            value: bool = self.evaluate_at(next(_iter), output_index)", "        for number_of_true in range(self.input_size - 1):\n\n            _iter = iter(input_iterator_with_fixed_sum(self.input_size, number_of_true))\n            value: bool = self.evaluate_at(next(_iter), output_index)", 'C12.FOLD')
M('c12-fold-sym-half-layers', 'C12', TTB, "        for number_of_true in range(self.input_size + 1):\n\n            _iter = iter(input_iterator_with_fixed_sum(self.input_size, number_of_true))\n            value: bool = self.evaluate_at(next(_iter), output_index)", "        for number_of_true in range((self.input_size + 1) // 2 + 1):\n\n            _iter = iter(input_iterator_with_fixed_sum(self.input_size, number_of_true))\n            value: bool = self.evaluate_at(next(_iter), output_index)", 'C12.FOLD')  # seeded C12-13
M('c12-fold-dep-insert', 'C12', CIRC, "            _x = list(x)\n            _x.insert(input_index, False)\n            value1 = self.evaluate_at(_x, output_index)", "            _x = list(x)\n            _x.insert(0, False)\n            value1 = self.evaluate_at(_x, output_index)", 'C12.FOLD')
M('c12-fold-eq-input', 'C12', PYF, "            output_value = self.evaluate_at(x, output_index)\n            input_value = x[input_index]", "            output_value = self.evaluate_at(x, output_index)\n            input_value = x[-1 - input_index]", 'C12.FOLD')
M('c12-fold-constant-first', 'C12', TTB, "        first_value = self._table[output_index][0]\n        for value in self._table[output_index]:", "        first_value = self._table[output_index][0]\n        for value in self._table[output_index][:-1]:", 'C12.FOLD')
M('c12-fold-monotone-inverse', 'C12', CIRC, "        change_value: bool = False\n        current_value: bool = inverse", "        change_value: bool = False\n        current_value: bool = False", 'C12.FOLD')
M('c12-fold-negations-output-filter', 'C12', PYF, "            return [result[idx] for idx in output_index]\n\n        for negations in itertools.product((False, True), repeat=self.input_size):\n            symmetric = True", "            return [result[idx] for idx in output_index[:1]]\n\n        for negations in itertools.product((False, True), repeat=self.input_size):\n            symmetric = True", 'C12.FOLD')
M('c12-fold-twin-generator', 'C12', TTB, "        return all(self.is_constant_at(i) for i in range(self.output_size))", "        return all([self.is_constant_at(i) for i in range(self.output_size)])", None)
M('c12-twin-sym-trivial-classes', 'C12', TTB, "        for number_of_true in range(self.input_size + 1):\n\n            _iter = iter(input_iterator_with_fixed_sum(self.input_size, number_of_true))\n            value: bool = self.evaluate_at(next(_iter), output_index)", "        for number_of_true in range(1, self.input_size):\n\n            _iter = iter(input_iterator_with_fixed_sum(self.input_size, number_of_true))\n            value: bool = self.evaluate_at(next(_iter), output_index)", None)
M('c09-endian-pad-before-reverse', 'C09', SUBF, "    if big_endian:\n        input_labels_a.reverse()\n        input_labels_b.reverse()\n\n    # pad the shorter (now little-endian) number with most significant zeros.\n    always_false = add_gate_from_tt(\n        circuit, input_labels_a[0], input_labels_b[0], \"0000\"\n    )\n    while len(input_labels_a) < len(input_labels_b):\n        input_labels_a.append(always_false)\n    while len(input_labels_a) > len(input_labels_b):\n        input_labels_b.append(always_false)\n",
  "    always_false = add_gate_from_tt(\n        circuit, input_labels_a[0], input_labels_b[0], \"0000\"\n    )\n    while len(input_labels_a) < len(input_labels_b):\n        input_labels_a.append(always_false)\n    while len(input_labels_a) > len(input_labels_b):\n        input_labels_b.append(always_false)\n\n    if big_endian:\n        input_labels_a.reverse()\n        input_labels_b.reverse()\n", 'C09.ENDIAN')

# C02.ORDER
M('c02-order-dup', 'C02', 'cirbo/core/circuit/utils.py', "        if elem not in old_list_copy:\n            raise CircuitGateIsAbsentError()\n        new_list.append(elem)\n        old_list_copy.remove(elem)", "        if elem not in old_list:\n            raise CircuitGateIsAbsentError()\n        new_list.append(elem)\n        if elem in old_list_copy:\n            old_list_copy.remove(elem)", 'C02.ORDER')
M('c02-order-tail-lost', 'C02', 'cirbo/core/circuit/utils.py', "    for elem in old_list_copy:\n        new_list.append(elem)\n\n    return new_list", "    for elem in old_list_copy[1:]:\n        new_list.append(elem)\n\n    return new_list", 'C02.ORDER')
M('c02-order-inputs-direct', 'C02', CIRC, "        self._inputs = order_list(inputs, self._inputs)", "        self._inputs = order_list(inputs, self._inputs) if len(inputs) < len(self._inputs) else list(inputs)", 'C02.ORDER')

# ---------------------------------------------------------------- rules added after the first seeded changes
M('c03-stateless', 'C03', MUO, "        _new_circuit = Circuit()\n\n        # redirection links that will", "        _new_circuit = Circuit()\n        self._last_source = circuit\n        self._last_source.mark_as_output(circuit.inputs[0])\n\n        # redirection links that will", 'C03.PURE')
M('c03-sym-set', 'C03', MDG, "                _operands = tuple(sorted(_operands))", "                _operands = tuple(sorted(set(_operands)))", 'C03.SYM')
M('c05-parity-dedupe', 'C05', TSE, "    for signs in itertools.product((-1, 1), repeat=len(lits)):", "    lits = list(dict.fromkeys(lits))\n    for signs in itertools.product((-1, 1), repeat=len(lits)):", 'C05.TPL')
M('c05-twin-and-dedupe', 'C05', TSE, "    common = [top_lit]\n    for lit in lits:\n        common.append(-lit)\n        cnf.append([lit, -top_lit])", "    common = [top_lit]\n    for lit in dict.fromkeys(lits):\n        common.append(-lit)\n        cnf.append([lit, -top_lit])", None)
M('c04-outs-first-only', 'C04', SUBC, "                circuit._outputs = [\n                    new_output if x == output else x for x in circuit._outputs\n                ]", "                circuit._outputs[circuit.index_of_output(output)] = new_output", 'C04.')
M('c07-fold-shift-concat', 'C07', SUMF, "            for i in range(n, shift):\n                d[i] = [zero]", "            for i in range(n, shift):\n                d[i] = [input_labels_b[0]]", 'C07.FOLD')
M('c07-worklist', 'C07', SUMF, "    while len(single) > 1 or len(pairs) > 1:\n        lev_single, _ = single[0]\n        lev_pairs, _, _ = pairs[0]\n        now_level = min(lev_single, lev_pairs)\n        if now_level == inf:\n            break\n        now_singles = []\n        now_pairs = []\n        while single[0][0] == now_level:\n            now_singles.append(single[0][1])\n            single.discard(single[0])\n        while pairs[0][0] == now_level:\n            now_pairs.append((pairs[0][1], pairs[0][2]))\n            pairs.discard(pairs[0])\n\n        next_solo = []",
  "    while len(single) > 1:\n        lev_single, _ = single[0]\n        lev_pairs, _, _ = pairs[0]\n        now_level = min(lev_single, lev_pairs)\n        if now_level == inf:\n            break\n        now_singles = []\n        now_pairs = []\n        while single[0][0] == now_level:\n            now_singles.append(single[0][1])\n            single.discard(single[0])\n        while pairs[0][0] == now_level:\n            now_pairs.append((pairs[0][1], pairs[0][2]))\n            pairs.discard(pairs[0])\n\n        next_solo = []", 'C07.WORKLIST')
M('c08-karatsuba-shift', 'C08', MULF, "    res = add_sum_two_numbers_with_shift(circuit, mid, bd, res_mid)\n    final_res = add_sum_two_numbers_with_shift(circuit, 2 * mid, res, ac)\n\n    return reverse_if_big_endian(final_res[:out_size], big_endian)\n\n\ndef add_simple_karatsuba(", "    res = add_sum_two_numbers_with_shift(circuit, mid, bd, res_mid)\n    final_res = add_sum_two_numbers_with_shift(circuit, n, res, ac)\n\n    return reverse_if_big_endian(final_res[:out_size], big_endian)\n\n\ndef add_simple_karatsuba(", 'C08.KARATSUBA')
# (add_simple_karatsuba / add_dadda_karatsuba are reached by no multiplication mode and are not exported: outside the statement of C08 --
# the second one is in fact wrong on the pinned tree for big_endian=True, DESIGN 9.3 -- so a change there must leave the check silent)
M('c08-karatsuba-halves', 'C08', MULF, "    ac = add_simple_karatsuba(circuit, a, c)\n    bd = add_simple_karatsuba(circuit, b, d)", "    ac = add_simple_karatsuba(circuit, a, d)\n    bd = add_simple_karatsuba(circuit, b, c)", None)
M('c08-square-cross', 'C08', SQF, "    res = add_sum_two_numbers_with_shift(circuit, mid + 1, aa, ab)", "    res = add_sum_two_numbers_with_shift(circuit, mid, aa, ab)", 'C08.KARATSUBA')
M('c09-fold-equal', 'C09', 'cirbo/synthesis/generation/arithmetics/equality.py', "    if len(bits) > len(input_labels):", "    if num > 2 ** len(input_labels):", 'C09.FOLD')
M('c09-fold-plus-one-carry', 'C09', GENG, "                        (input_labels[i], carries[i - 1]),\n                    )\n                )\n            circuit.add_gate(\n                Gate(result_labels[i], gate.XOR, (input_labels[i], carries[i - 1]))", "                        (input_labels[i], carries[i - 1]),\n                    )\n                )\n            circuit.add_gate(\n                Gate(result_labels[i], gate.XOR, (input_labels[i], carries[0]))", 'C09.FOLD')
M('c09-fold-sub-swap', 'C09', SUBF, "            res[i], bal[i] = add_sub2(circuit, [input_labels_a[i], bal[i - 1]])", "            res[i], bal[i] = add_sub2(circuit, [bal[i - 1], input_labels_a[i]])", 'C09.FOLD')
M('c09-fold-set-outputs', 'C09', GENG, "        for result_label in result_labels:\n            circuit.mark_as_output(result_label)\n    return result_labels", "        circuit.set_outputs(result_labels)\n    return result_labels", 'C09.FOLD')
M('c18-unary-parity', 'C18', MUO, "                _not_to_odd_parent[_gate.label] = _not_to_even_parent.get(_oper, _oper)", "                _not_to_odd_parent[_gate.label] = _oper", 'C18.UNARY')
M('c18-unary-iff-chain', 'C18', MUO, "                _iff_to_parent[_gate.label] = _iff_to_parent.get(_oper, _oper)", "                _iff_to_parent[_gate.label] = _oper", 'C18.UNARY')
M('c18-unary-remap-odd', 'C18', MUO, "                return _not_to_even_parent.get(gate_label, gate_label)", "                return _not_to_odd_parent.get(gate_label, gate_label)", 'C18.UNARY')
M('c13-cached-generator', 'C13', GENG, "def generate_pairwise_xor(n: int) -> Circuit:", "import functools\n\n\n@functools.lru_cache(maxsize=64)\ndef generate_pairwise_xor(n: int) -> Circuit:", 'C13.WIRE')
M('c19-inputs-via-remove', 'C19', CIRC, "                self._gates[input_label] = gate.Gate(input_label, new_type)\n                self._inputs.remove(input_label)", "                users = list(self.get_gate_users(input_label))\n                self._remove_gate(input_label)\n                self._emplace_gate(input_label, new_type)\n                self._gate_to_users[input_label] = users", 'C19.INPUTS')
M('c02-restore-setdefault', 'C02', CIRC, "            if gate_label not in self._gate_to_users:\n                self._gate_to_users[gate_label] = list_users\n            else:\n                self._gate_to_users[gate_label].extend(list_users)", "            self._gate_to_users.setdefault(gate_label, list_users)", 'C02.IDX')
M('c01-private-map', 'C01', CIRC, "        assignment_dict: dict[gate.Label, GateState] = dict(assignment)\n        for _input in self._inputs:\n            assignment_dict.setdefault(_input, Undefined)\n\n        queue_", "        assignment_dict: dict[gate.Label, GateState] = assignment\n        for _input in self._inputs:\n            assignment_dict.setdefault(_input, Undefined)\n\n        queue_", 'C01.APPLY')
M('c01-stack-eval-early', 'C01', CIRC, "            if cur_gate.label == queue_[-1]:\n                assignment_dict[cur_gate.label] = cur_gate.operator(", "            if True:\n                assignment_dict[cur_gate.label] = cur_gate.operator(", 'C01.APPLY')

# ---------------------------------------------------------------- round 2 of sub-agent seeds: own variants of the mechanisms
DIVF = 'cirbo/synthesis/generation/arithmetics/div_mod.py'
M('r2-c02-remove-user-all', 'C02', CIRC, "            self._gate_to_users[gate_label].remove(user)", "            self._gate_to_users[gate_label] = [u for u in self._gate_to_users[gate_label] if u != user]", 'C02.IDX')
M('r2-c14-remove-user-all', 'C14', CIRC, "            self._gate_to_users[gate_label].remove(user)", "            self._gate_to_users[gate_label] = [u for u in self._gate_to_users[gate_label] if u != user]", 'C14.IDX')
M('r2-c03-mdg-last-wins', 'C18', MDG, "            _signature_to_duplicate.setdefault(_sig, _gate.label)", "            _signature_to_duplicate[_sig] = _gate.label", 'C18.FOLD')
M('r2-c03-meg-keep-per-gate', 'C18', MEG, "        keep = _Keep()\n        for gate_to_replace in group:\n            _old_to_new_gate[gate_to_replace] = keep", "        for gate_to_replace in group:\n            keep = _Keep()\n            _old_to_new_gate[gate_to_replace] = keep", 'C18.FOLD')
M('r2-c03-meg-outputs-first', 'C03', MEG, "    # reconstruct circuit\n    more_itertools.consume(", "    _resolved = list(map(_get_gate_new_name, circuit.outputs))\n    # reconstruct circuit\n    more_itertools.consume(", 'C03.FOLD')
M('r2-c03-rrg-const-no-operands', 'C18', RRG, "                operands=gate.operands,", "                operands=() if gate.gate_type.name.startswith('ALWAYS') else gate.operands,", 'C18.FOLD')
M('r2-c03-cleanup-removal', 'C03', CLEAN, "        _strategies += [MergeEquivalentGates()]", "        _strategies += [RemoveRedundantGates(allow_inputs_removal=True), MergeEquivalentGates()]", 'C03.IFACE')
M('r2-c05-sorted-lits', 'C05', TSE, "        lits = [process_gate(lit) for lit in operands]", "        lits = sorted(process_gate(lit) for lit in operands)", 'C05.')
M('r2-c06-dec-loops-swapped', 'C06', SEARCH, "        for h in self._outputs:\n            for gate in self._gates:\n                if self._output_gate_variable(h, gate) in model:", "        for gate in self._gates:\n            for h in self._outputs:\n                if self._output_gate_variable(h, gate) in model:", 'C06.DEC')
M('r2-c04-dec-loops-swapped', 'C04', SEARCH, "        for h in self._outputs:\n            for gate in self._gates:\n                if self._output_gate_variable(h, gate) in model:", "        for gate in self._gates:\n            for h in self._outputs:\n                if self._output_gate_variable(h, gate) in model:", 'C06.DEC')
M('r2-c06-exactly-one-empty', 'C06', SEARCH, "        self._cnf.append(literals)\n        self._cnf.extend([[-a, -b]", "        if literals:\n            self._cnf.append(literals)\n        self._cnf.extend([[-a, -b]", 'C06.ENC')
M('r2-c04-size-operands', 'C04', SUBC, "            if oper_type != 'NOT':\n                circuit_size += 1", "            circuit_size += max(len(operands) - 1, 0)", 'C04.CONE')
M('r2-c04-dc-lsb-first', 'C04', SUBC, "            assignment: str = ''.join(i)\n", "            assignment: str = ''.join(reversed(i))\n", 'C04.CONE')
M('r2-c04-outputs-only-marked', 'C04', SUBC, "            is_output: bool = node in outputs_set or not users\n            if not is_output:", "            is_output: bool = node in outputs_set or not users\n            if is_output:", 'C04.CONE')
M('r2-c07-adder-last-bit', 'C07', SUMF, "        if i < m:\n            inp.append(input_labels_b[i])\n        d[i] = list(add_sum_n_bits(circuit, inp))", "        if i < m - 1:\n            inp.append(input_labels_b[i])\n        d[i] = list(add_sum_n_bits(circuit, inp))", 'C07.FOLD')
M('r2-c07-sortedset', 'C07', SUMF, "    single = SortedList(input_labels_with_pow)  # sorted list of single", "    single = SortedList(set(input_labels_with_pow))  # sorted list of single", 'C07.ARGS')
M('r2-c08-alter-shift', 'C08', MULF, "        res = add_sum_two_numbers_with_shift(circuit, i, res, c[i])", "        res = add_sum_two_numbers_with_shift(circuit, i - 1, res, c[i])", 'C08.FOLD')
M('r2-c09-divmod-no-mod-mask', 'C09', DIVF, "    for i in range(n):\n        now[i] = add_gate_from_tt(circuit, now[i], pref[-1], \"0001\")\n", "", 'C09.FOLD')
M('r2-c09-compare-flag-inverted', 'C09', SUBF, "    return reverse_if_big_endian(res, big_endian), bal[n - 1]", "    return reverse_if_big_endian(res, big_endian), add_gate_from_tt(circuit, bal[n - 1], bal[n - 1], '1000')", 'C09.FOLD')
M('r2-c12-significant-skip-unused', 'C12', CIRC, "            for input_index in range(self.input_size)\n            if self.is_dependent_on_input_at(output_index, input_index)", "            for input_index in range(self.input_size)\n            if self.get_gate_users(self._inputs[input_index]) and self.is_dependent_on_input_at(output_index, input_index)", 'C12.FOLD')
M('r2-c13-xor-default-connectors', 'C13', MIT, "    miter.connect_circuit(\n        pairwise_xor,\n        miter.get_block(left_name).outputs + miter.get_block(right_name).outputs,\n        pairwise_xor.inputs,\n        name=PAIRWISE_XOR_NAME,\n    )", "    miter.extend_circuit(pairwise_xor, name=PAIRWISE_XOR_NAME)", 'C13.WIRE')
M('r2-c15-early-exit', 'C15', CIRC, "        assignment_dict: dict[gate.Label, GateState] = dict(assignment)\n        for _input in self._inputs:\n            assignment_dict.setdefault(_input, Undefined)\n\n        queue_", "        if not assignment:\n            return dict.fromkeys(self._gates, Undefined)\n        assignment_dict: dict[gate.Label, GateState] = dict(assignment)\n        for _input in self._inputs:\n            assignment_dict.setdefault(_input, Undefined)\n\n        queue_", 'C01.APPLY')
M('r2-c15-twin-structural-exit', 'C15', CIRC, "        assignment_dict: dict[gate.Label, GateState] = dict(assignment)\n        for _input in self._inputs:\n            assignment_dict.setdefault(_input, Undefined)\n\n        queue_", "        if not self._gates:\n            return dict()\n        assignment_dict: dict[gate.Label, GateState] = dict(assignment)\n        for _input in self._inputs:\n            assignment_dict.setdefault(_input, Undefined)\n\n        queue_", None)
M('r2-c16-sorted-ids-all-but-gt-lt', 'C16', ENCF, "    for operand_label in gate_.operands:\n        bit_writer.write_number(gate_identifiers[operand_label], word_size)", "    _ids = [gate_identifiers[o] for o in gate_.operands]\n    if gate_.gate_type not in (gate.GT, gate.LT):\n        _ids.sort()\n    for _id in _ids:\n        bit_writer.write_number(_id, word_size)", 'C16.GATE-RT')
M('r2-c16-twin-sorted-ids-symmetric', 'C16', ENCF, "    for operand_label in gate_.operands:\n        bit_writer.write_number(gate_identifiers[operand_label], word_size)", "    _ids = [gate_identifiers[o] for o in gate_.operands]\n    if gate_.gate_type.is_symmetric:\n        _ids.sort()\n    for _id in _ids:\n        bit_writer.write_number(_id, word_size)", None)
M('r2-c17-decoder-raw-store', 'C17', ENCF, "    circuit.add_gate(gate)\n", "    circuit._gates[label] = gate\n", 'C17.KEY')
M('r2-c19-block-rename-first-only', 'C19', CIRC, "        for i, output_label in enumerate(self.outputs):\n            if output_label == old_label:\n                self.outputs[i] = new_label\n\n        return self", "        if old_label in self.outputs:\n            self.outputs[self.outputs.index(old_label)] = new_label\n\n        return self", 'C19.RENAME')
M('r2-c03-twin-cleanup-explicit-default', 'C18', CLEAN, "        RemoveRedundantGates(),\n        MergeUnaryOperators(),", "        RemoveRedundantGates(allow_inputs_removal=False),\n        MergeUnaryOperators(),", None)

# ---------------------------------------------------------------- composition / miter folds
M('r3-c10-into-circuit-dup-inputs', 'C10', CIRC, "            if not new_circuit.has_gate(_input):\n                new_circuit._emplace_gate(label=_input, gate_type=gate.INPUT)", "            if True:\n                new_circuit._emplace_gate(label=_input, gate_type=gate.INPUT)", 'C10.BLOCK')
M('r3-c10-extend-defaults-swapped', 'C10', CIRC, "            this_connectors = self.inputs if right_connect else self.outputs", "            this_connectors = self.outputs if right_connect else self.inputs", 'C10.')
M('r3-c10-right-connect-keeps-type', 'C10', CIRC, "                        label=connector_label,\n                        gate_type=cur_gate.gate_type,\n                        operands=connector_operands,", "                        label=connector_label,\n                        gate_type=cur_gate.gate_type if cur_gate.gate_type != gate.NOT else gate.IFF,\n                        operands=connector_operands,", 'C10.')
M('r3-c10-outputs-keep-connectors', 'C10', CIRC, "            [output for output in self._outputs if output not in this_connectors]\n            + [", "            [output for output in self._outputs if output not in this_connectors or right_connect]\n            + [", 'C10.')
M('r3-c13-final-and', 'C13', MIT, "        miter.emplace_gate(OR_NAME, gate.OR, xor_outputs)", "        miter.emplace_gate(OR_NAME, gate.AND, xor_outputs)", 'C13.')
M('r3-c13-right-inputs-reversed', 'C13', MIT, "        miter.get_block(left_name).inputs,\n        right.inputs,", "        miter.get_block(left_name).inputs,\n        list(reversed(right.inputs)),", 'C13.')
M('r3-c13-twin-locals', 'C13', MIT, "    pairwise_xor = generate_pairwise_xor(left.output_size)\n", "    n_outputs = left.output_size\n    pairwise_xor = generate_pairwise_xor(n_outputs)\n", None)

# C17.SHIP: the numbering of the on-disk format must stay the one the shipped files were written with
M('c17-ship-renumber-and-or', 'C17', ENCF, "    gate.AND: 1,\n    gate.OR: 2,", "    gate.OR: 1,\n    gate.AND: 2,", 'C17.SHIP')
M('c17-ship-renumber-xor', 'C17', ENCF, "    gate.XOR: 5,\n    gate.NXOR: 6,", "    gate.NXOR: 5,\n    gate.XOR: 6,", 'C17.SHIP')
M('c17-ship-key-width', 'C17', 'cirbo/circuits_db/binary_dict_io.py', "DICT_KEY_BYTE_SIZE = 2", "DICT_KEY_BYTE_SIZE = 4", 'C17.SHIP')

# *.NUM: the generators as they stand (work lists, reduction loops, recursion)
M('c08-num-wallace-leftover', 'C08', MULF, "        for row in range(len(c[0]) - len(c[0]) % 3, len(c[0])):\n            for col in range(n + m):\n                cn[col].append(c[col][row])", "        for row in range(len(c[0]) - len(c[0]) % 3, len(c[0]) - len(c[0]) % 3 + min(1, len(c[0]) % 3)):\n            for col in range(n + m):\n                cn[col].append(c[col][row])", 'C08.NUM')
M('c08-num-dadda-step', 'C08', MULF, "            di = (2 * di + 2) // 3", "            di = (2 * di + 1) // 3", None)  # another valid reduction schedule: the product is still exact
M('c08-num-karatsuba-high-shift', 'C08', MULF, "    final_res = add_sum_two_numbers_with_shift(circuit, 2 * mid, res, ac)\n\n    return reverse_if_big_endian(final_res[:out_size], big_endian)\n\n\ndef add_simple_karatsuba", "    final_res = add_sum_two_numbers_with_shift(circuit, 2 * mid + 1, res, ac)\n\n    return reverse_if_big_endian(final_res[:out_size], big_endian)\n\n\ndef add_simple_karatsuba", 'C08.NUM')
M('c08-num-twin-wallace-range', 'C08', MULF, "        for row in range(0, len(c[0]) - len(c[0]) % 3, 3):", "        for row in range(0, 3 * (len(c[0]) // 3), 3):", None)
M('c07-num-easy-pop', 'C07', SUMF, "            x, y = add_sum2(circuit, now[-1:-3:-1])\n            for _ in range(2):\n                now.pop()\n            now.append(x)\n            next.append(y)\n        res.append(now[0])", "            x, y = add_sum2(circuit, now[-1:-3:-1])\n            for _ in range(2):\n                now.pop()\n            now.append(y)\n            next.append(x)\n        res.append(now[0])", 'C07.NUM')
M('c07-num-weighted-level', 'C07', SUMF, "        for label in next_solo:\n            single.add((now_level + 1, label))", "        for label in next_solo:\n            single.add((now_level + 2, label))", 'C07.NUM')
M('c07-num-pow2-carry', 'C07', SUMF, "                input_labels = input_labels[i:]\n                input_labels.append(out[it][0])", "                input_labels = input_labels[i:]\n                input_labels.append(out[it][-1])", 'C07.NUM')
# round-3 strengthenings
M('c13-many-outputs-slice', 'C13', MIT, "        miter.emplace_gate(OR_NAME, gate.OR, xor_outputs)", "        miter.emplace_gate(OR_NAME, gate.OR, xor_outputs[:5] if len(xor_outputs) > 5 else xor_outputs)", 'C13.FOLD')
M('c20-cycle-first-output-only', 'C20', VAL, "    more_itertools.consume(circuit.dfs(on_discover_hook=on_discover_hook))", "    more_itertools.consume(circuit.dfs(circuit.outputs[:1] or None, on_discover_hook=on_discover_hook))", 'C20.FOLD')
M('c05-sat-answer-from-model', 'C05', 'cirbo/sat/sat.py', "        return PySatResult(_solver.solve(), _solver.get_model())", "        _solver.solve()\n        return PySatResult(bool(_solver.get_model()), _solver.get_model())", 'C05.SAT')
M('c08-revert-f34', 'C08', MULF, "            if i > 0 and c[i - 1][1] != PLACEHOLDER_STR:\n                runs_b[-1][1].append(c[i][1])", "            if runs_b:\n                runs_b[-1][1].append(c[i][1])", 'C08.NUM')
M('c04-revert-f35', 'C04', SUBC, "                    if user not in cut_nodes[cut] or user in inputs:", "                    if user not in cut_nodes[cut]:", 'C04.')
