"""Evidence files, known-findings matching, exit codes."""

from __future__ import annotations

import json
import os
import pathlib
import time

from .core import Checker, Obligation, Repo

VERIF = pathlib.Path(__file__).resolve().parent.parent
# development runs against scratch copies (self-test, seeded changes) may redirect their evidence away from /verif/evidence
EVIDENCE = pathlib.Path(os.environ.get('CIRBO_VERIF_EVIDENCE') or (VERIF / 'evidence'))
KNOWN = VERIF / 'known_findings.json'


def load_known():
    if not KNOWN.exists():
        return []
    data = json.loads(KNOWN.read_text())
    return data.get('findings', [])


def _matches(entry, prop, ob: Obligation):
    return (
        entry.get('status') == 'open'
        and entry.get('property') == prop
        and entry.get('rule') == ob.rule
        and entry.get('file') == ob.loc.file
        and entry.get('function') == ob.loc.func
        and entry.get('construct') == ob.loc.construct
    )


def finish(ck: Checker, t0: float, seed: int, extra_cov=None) -> int:
    """Write evidence, print verdict lines, return the exit code (0 or 1)."""
    repo: Repo = ck.repo
    known = load_known()
    violations = [o for o in ck.obligations if o.status == 'violation']
    listed, unlisted = [], []
    for o in violations:
        hit = next((e for e in known if _matches(e, ck.prop, o)), None)
        (listed if hit else unlisted).append((o, hit))

    EVIDENCE.mkdir(parents=True, exist_ok=True)
    replay_dir = EVIDENCE / 'replay'
    replays = []
    if unlisted:
        replay_dir.mkdir(exist_ok=True)
    for k, (o, _) in enumerate(unlisted):
        p = replay_dir / f'{ck.prop}-{k}.json'
        p.write_text(json.dumps({'property': ck.prop, **o.to_json()}, indent=1))
        replays.append(p)

    n_obl = len(ck.obligations)
    n_ok = sum(1 for o in ck.obligations if o.status == 'ok')
    distinct = len({o.key() for o in ck.obligations})
    per_rule = {}
    for o in ck.obligations:
        r = per_rule.setdefault(o.rule, {'instances': 0, 'ok': 0, 'violations': 0})
        r['instances'] += 1
        key = {'ok': 'ok', 'violation': 'violations'}.get(o.status, 'undecided')
        r[key] = r.get(key, 0) + 1
    # samples: every violation + up to 6 instances per rule
    samples = [o.to_json() for o in violations]
    seen_rule = {}
    for o in ck.obligations:
        if o.status != 'ok':
            continue
        c = seen_rule.get(o.rule, 0)
        if c < 6:
            samples.append(o.to_json())
            seen_rule[o.rule] = c + 1
    files = {
        repo.modules[m].rel: repo.modules[m].sha256 for m in sorted(repo.consulted)
    }
    cov = {
        'explanation': (
            'Static analysis of the syntax trees of /repo/cirbo: nothing is imported from the repository and no '
            'repository dependency is needed. Two kinds of rule: (1) table cross-checks and structural (shape, '
            'who-may-write, guard-before-write) rules over the tree; (2) folds -- the analyser\'s own evaluator '
            'instantiates a function of the tree on small model states (model circuits, truth tables, call histories) '
            'and an independent oracle judges the result; a fold covers the bounded family named in its text and in '
            'the assumptions, not all inputs. Rules applied: '
            + ' | '.join(f'{k}: {v}' for k, v in ck.rules_applied.items())
        ),
        'obligations': n_obl,
        'discharged': n_ok,
        'evaluations': n_obl,
        'distinct_nontrivial': distinct,
        'rule': (
            'one obligation per rule instance discovered in the source tree (table '
            'entry, clause template, write site, call site, guard); distinct = distinct '
            '(rule, file, function, normalised construct) keys; an instance is '
            'non-trivial because it is matched to a real construct of the tree'
        ),
        'per_rule': per_rule,
        'samples': samples,
        'files_analysed': files,
        'modules_parsed': len(repo.modules),
        'known_findings_reported': [o.to_json() for o, _ in listed],
        # complete enumeration holds for the rule instances found in the tree; a run that also folded functions over a
        # seeded / bounded family of model states did not enumerate *that* space completely
        'exhaustive': not any(('bounded' in a or 'seeded' in a) for a in ck.assumptions),
        'rule_instances_enumerated_completely': True,
    }
    cov.update(ck.notes)
    if extra_cov:
        cov.update(extra_cov)
    ev = {
        'property_id': ck.prop,
        'tier': ck.tier,
        'seed': seed,
        'level': 'other',
        'coverage': cov,
        'assumptions': ck.assumptions
        + [
            'CPython ast parser; the analyser itself (self-tested on seeded mutants in the thorough tier)',
            'no monkey-patching of the analysed names at import time',
        ],
        'wall_s': round(time.time() - t0, 3),
        'violations': len(unlisted),
    }
    (EVIDENCE / f'{ck.prop}.json').write_text(json.dumps(ev, indent=1, default=str))

    for o, hit in listed:
        print(f'KNOWN-FINDING: property={ck.prop} {hit.get("id", "")} {o.rule} {o.loc} -- {o.msg}')
    for (o, _), p in zip(unlisted, replays):
        print(f'VIOLATION property={ck.prop} replay={p}')
        print(f'  rule {o.rule} at {o.loc}')
        print(f'  {o.what}: {o.msg}')
    print(
        f'{ck.prop} [{ck.tier}]: {n_obl} obligations, {n_ok} discharged, '
        f'{len(listed)} known findings, {len(unlisted)} violations; rules: '
        + ', '.join(f'{r}={v["instances"]}' for r, v in per_rule.items())
    )
    return 1 if unlisted else 0
