"""C04: `minimize_subcircuits` folded end to end on model circuits.

The main function is a worklist over cut cones; everything it calls inside the library is the
repository's own code, folded too (cone extraction, don't-care analysis, renaming, the splice
through `replace_subcircuit`, the cycle check).  The two things that are *not* library code are
replaced by oracles:

* the cut enumerator (`mockturtle_wrapper.enumerate_cuts`) by every k-feasible cut of every
  node ("whatever valid family of cuts the cut enumerator supplies");
* the exact synthesiser (`CircuitFinderSat(...).find_circuit`) by an exhaustive search over
  circuits of at most two gates in the requested basis that honours the model's don't-cares and
  answers `NoSolutionError` otherwise (the synthesiser itself is C06's subject), or -- second
  configuration -- by one that never finds anything, so that only the short-circuit branch for
  trivial cone outputs is exercised.

For every model circuit, basis and configuration the result must have the same inputs in the
same order, the same number of outputs, the same truth table, not more non-trivial gates, and
-- on circuits without functionally equivalent gates -- no internal error.
"""

from __future__ import annotations

import collections
import itertools
import random

from .core import AnalysisError, Checker
from . import circuit_model as cm
from .compose_fold import state_values
from .interp import Host, InterpRaise, RepoFunc
from .subc_fold import oracle_cuts, SUPPORTED
from .tables import Denotations
from . import semantics

DEBUG = False
# (synthesiser oracle, basis, cut size, cuts enumerated in reverse order)
CONFIGS = [('search', 'XAIG', 2, False), ('search', 'XAIG', 3, False), ('search', 'AIG', 2, True), ('search', 'AIG', 3, False), ('search', 'XAIG', 3, True), ('none', 'XAIG', 3, False), ('none', 'AIG', 2, True),
           ('exact_rev', 'AIG', 3, False), ('exact_rev', 'XAIG', 2, True)]
SUBC = 'cirbo.minimization.subcircuit'
SEARCH = 'cirbo.synthesis.circuit_search'


def _family(tier):
    rnd = random.Random(404)
    fam = [
        ([('a', 'INPUT', ()), ('b', 'INPUT', ()), ('n', 'NOT', ('a',)), ('g', 'AND', ('n', 'b'))], ['g']),
        ([('a', 'INPUT', ()), ('b', 'INPUT', ()), ('c', 'INPUT', ()), ('u', 'AND', ('a', 'b')), ('v', 'OR', ('u', 'c')), ('w', 'XOR', ('v', 'u')), ('o', 'AND', ('w', 'v'))], ['o']),
        ([('a', 'INPUT', ()), ('b', 'INPUT', ()), ('x', 'XOR', ('a', 'b')), ('y', 'NOT', ('x',)), ('z', 'NOT', ('y',)), ('o', 'OR', ('z', 'a'))], ['o', 'y']),
        ([('a', 'INPUT', ()), ('b', 'INPUT', ()), ('c', 'INPUT', ()), ('u', 'AND', ('a', 'b')), ('v', 'AND', ('a', 'c')), ('o', 'OR', ('u', 'v'))], ['o']),
        ([('a', 'INPUT', ()), ('b', 'INPUT', ()), ('u', 'NAND', ('a', 'b')), ('v', 'NAND', ('a', 'u')), ('w', 'NAND', ('b', 'u')), ('o', 'NAND', ('v', 'w'))], ['o', 'u']),
    ]
    fam += [
        # a cone output equal to the negation of a leaf without any NOT gate computing it (no two gates are equivalent), read from outside
        ([('a', 'INPUT', ()), ('b', 'INPUT', ()), ('x', 'NAND', ('a', 'a')), ('o', 'AND', ('x', 'b'))], ['o']),
        # the same next to outputs that can really be improved (mixed trivial / non-trivial cone outputs)
        ([('a', 'INPUT', ()), ('b', 'INPUT', ()), ('c', 'INPUT', ()), ('x', 'NAND', ('a', 'a')), ('u', 'AND', ('a', 'b')), ('v', 'AND', ('a', 'c')), ('y', 'OR', ('u', 'v'))], ['y', 'x']),
        # a cone all of whose outputs are negations of leaves and are read from outside (the cut exists through a dead gate)
        ([('a', 'INPUT', ()), ('b', 'INPUT', ()), ('c', 'INPUT', ()), ('x', 'NAND', ('a', 'a')), ('y', 'NOR', ('b', 'b')), ('z', 'AND', ('x', 'y')), ('w1', 'AND', ('x', 'c')), ('w2', 'OR', ('y', 'c'))], ['w1', 'w2']),
        # a cone output equal to a leaf, listed twice among the circuit outputs, nobody reads it (the cut exists through a dead gate)
        ([('a', 'INPUT', ()), ('b', 'INPUT', ()), ('t', 'OR', ('a', 'a')), ('z', 'AND', ('t', 'b'))], ['t', 't']),
        ([('a', 'INPUT', ()), ('b', 'INPUT', ()), ('c', 'INPUT', ()), ('g0', 'AND', ('a', 'b')), ('g1', 'OR', ('a', 'g0')), ('h', 'XOR', ('b', 'c'))], ['g1', 'h', 'g1']),
        # an improvable cone with two circuit outputs listed against their topological order and followed by a foreign output
        ([('a', 'INPUT', ()), ('b', 'INPUT', ()), ('c', 'INPUT', ()), ('n0', 'OR', ('a', 'b')), ('n1', 'NAND', ('a', 'b')), ('o1', 'AND', ('n0', 'n1')), ('z', 'OR', ('b', 'c'))], ['o1', 'n1', 'z']),
        # a cut through gates no output depends on
        ([('x0', 'INPUT', ()), ('x1', 'INPUT', ()), ('x2', 'INPUT', ()), ('g0', 'XOR', ('x1', 'x0')), ('g1', 'LT', ('g0', 'x2')), ('g2', 'XOR', ('x0', 'x2'))], ['g2']),
        # a synthesised cone with more inner gates than the region it replaces
        ([('x0', 'INPUT', ()), ('x1', 'INPUT', ()), ('g0', 'NOR', ('x1', 'x1')), ('g1', 'LT', ('x1', 'x1')), ('g2', 'AND', ('x1', 'x0')), ('g3', 'LEQ', ('g2', 'x1'))], ['g3', 'g0', 'g0']),
        # the same when every gate of the region is an output (three complements of found patterns, XOR to be built from AND-like gates)
        ([('a', 'INPUT', ()), ('b', 'INPUT', ()), ('f', 'XOR', ('a', 'b')), ('n1', 'NAND', ('a', 'a')), ('n2', 'NOR', ('b', 'b')), ('n3', 'NXOR', ('a', 'b'))], ['f', 'n1', 'n2', 'n3']),
        # a complement of a leaf listed before an improvable output of the same two-leaf cone
        ([('a', 'INPUT', ()), ('b', 'INPUT', ()), ('u', 'AND', ('a', 'b')), ('v', 'OR', ('a', 'b')), ('y', 'XOR', ('u', 'v')), ('x', 'NAND', ('a', 'a'))], ['y', 'x']),
        # a cut leaf (b) that itself reads an inner gate (o1) of the cone over that cut (F35)
        ([('a', 'INPUT', ()), ('z1', 'INPUT', ()), ('z2', 'INPUT', ()), ('o1', 'NOT', ('a',)), ('b', 'XOR', ('o1', 'z1', 'z2')), ('t', 'AND', ('o1', 'b')), ('u', 'OR', ('o1', 'b')), ('o2', 'XOR', ('t', 'u'))], ['o2', 'b']),
        # a cone with two complementary outputs, neither computed by a NOT gate: the replacement has as many gates as the region and takes over its labels
        ([('a', 'INPUT', ()), ('b', 'INPUT', ()), ('c', 'INPUT', ()), ('e', 'INPUT', ()), ('g0', 'AND', ('a', 'c')), ('g1', 'NOR', ('c', 'b')), ('g2', 'OR', ('g0', 'b')), ('g3', 'NXOR', ('c', 'g2')), ('ng', 'XOR', ('c', 'g2')), ('p2', 'GT', ('g3', 'e')), ('p3', 'GEQ', ('ng', 'e'))], ['p2', 'p3']),
        # the complement of a cut input next to improvable outputs of the same cone (and its mirror image)
        ([('x0', 'INPUT', ()), ('x1', 'INPUT', ()), ('g0', 'AND', ('x0', 'x1')), ('g1', 'GEQ', ('x0', 'x1')), ('g2', 'XOR', ('g0', 'x0')), ('g3', 'NOR', ('x0', 'g1')), ('g4', 'NOT', ('g2',)), ('ni', 'NOT', ('x0',))], ['g2', 'ni', 'g1']),
        ([('x0', 'INPUT', ()), ('x1', 'INPUT', ()), ('g0', 'AND', ('x0', 'x1')), ('g1', 'GEQ', ('x1', 'x0')), ('g2', 'XOR', ('g0', 'x1')), ('g3', 'NOR', ('x1', 'g1')), ('g4', 'NOT', ('g2',)), ('ni', 'NOT', ('x1',))], ['g2', 'ni', 'g1']),
        # a later cone shares an inner gate of a cone that was replaced
        ([('x0', 'INPUT', ()), ('x1', 'INPUT', ()), ('x2', 'INPUT', ()), ('g0', 'XOR', ('x2', 'x0')), ('g1', 'NOR', ('x2', 'x2')), ('g2', 'NAND', ('x1', 'g1')), ('g3', 'NOR', ('x0', 'x0')), ('g4', 'NOR', ('x1', 'g1')), ('g5', 'NOT', ('g2',)), ('g6', 'LT', ('g4', 'g2'))], ['g6']),
        # a cone output equal to a leaf that other gates read
        ([('a', 'INPUT', ()), ('b', 'INPUT', ()), ('c', 'INPUT', ()), ('g0', 'AND', ('a', 'b')), ('g1', 'OR', ('a', 'g0')), ('h', 'XOR', ('g1', 'c')), ('k', 'AND', ('g1', 'g1'))], ['h', 'k']),
        # a dead gate inside a cone
        ([('u', 'INPUT', ()), ('v', 'INPUT', ()), ('c', 'INPUT', ()), ('m', 'NOT', ('u',)), ('p', 'GT', ('m', 'v')), ('q', 'NAND', ('p', 'm')), ('k', 'LT', ('m', 'p')), ('h', 'GEQ', ('c', 'p'))], ['h', 'k']),
    ]
    names = ['q', 'm', 'z', 'c', 'w', 'e', 'u', 'k', 'p', 'd', 'v', 'h']
    for _ in range(14 if tier == 'quick' else 120):
        n_in = rnd.choice((2, 3, 3))
        n_g = rnd.randint(2, 6)
        nm = rnd.sample(names, n_in + n_g)
        spec = [(nm[i], 'INPUT', ()) for i in range(n_in)]
        for j in range(n_g):
            avail = [s[0] for s in spec]
            if rnd.random() < 0.2:
                spec.append((nm[n_in + j], 'NOT', (rnd.choice(avail),)))
            else:
                spec.append((nm[n_in + j], rnd.choice(SUPPORTED[1:]), (rnd.choice(avail), rnd.choice(avail))))
        gates = [s[0] for s in spec[n_in:]]
        outs = list(dict.fromkeys([gates[-1]] + [rnd.choice(gates) for _ in range(rnd.randint(0, 1))]))
        fam.append((spec, outs))
    return fam


def _equivalent_gates(spec):
    """Does the circuit contain two gates with the same (or complementary: a NOT of a gate is *not* counted) truth table?"""
    inputs = [l for l, t, _ in spec if t == 'INPUT']
    tt = {}
    for bits in itertools.product((False, True), repeat=len(inputs)):
        v = dict(zip(inputs, bits))
        by = {l: (t, ops) for l, t, ops in spec}

        def ev(l, depth=0):
            if l not in v:
                if depth > len(by):
                    raise AnalysisError('a model circuit of the minimisation fold has a cycle')
                t, ops = by[l]
                v[l] = semantics.value(t, [ev(o, depth + 1) for o in ops])
            return v[l]
        for l, t, ops in spec:       # (storage order need not be operands-first)
            ev(l)
        for l in v:
            tt.setdefault(l, []).append(v[l])
    seen = {}
    for l, row in tt.items():
        k = tuple(row)
        if k in seen:
            return True
        seen[k] = l
    return False


def _nontrivial(c):
    return sum(1 for g in c._d['_gates'].values() if g.gate_type.name not in ('NOT', 'IFF', 'INPUT'))


class _Finder(Host):
    """Oracle for CircuitFinderSat: exhaustive search over <= 2 gates (<= 3 over two inputs) in the basis, honouring don't-cares."""

    mode = 'search'
    M = None
    it = None

    def __init__(self, model, number_of_gates, *, basis=None, need_normalized=False, **k):
        self.model, self.n_gates, self.basis = model, number_of_gates, basis

    def find_circuit(self, *a, **k):
        if _Finder.mode == 'none' or self.n_gates <= 0:
            raise InterpRaise('NoSolutionError')
        it, M = _Finder.it, _Finder.M
        table = [list(r) for r in it.getattr(self.model._cls.mod, None, self.model, 'get_model_truth_table')()]
        n = (len(table[0])).bit_length() - 1
        ops = getattr(self.basis, 'value', self.basis)
        codes = sorted({op.value for op in ops})
        from .rules.C06 import enumerate_structures, natural_values
        sizes = range(1, min(self.n_gates, 3 if n <= 2 else 2) + 1)
        exact = _Finder.mode == 'exact_rev'
        if exact:
            # what the real synthesiser does: a circuit of exactly the requested number of gates (some of them possibly idle),
            # here the last one in enumeration order -- pseudo-unary gates and late wires first.  Beyond the enumeration
            # bound the search gives up like a solver that runs out of time.
            if self.n_gates > (3 if n <= 2 else 2):
                raise InterpRaise('NoSolutionError')
            sizes = [self.n_gates]
            codes = codes[::-1]
        for N in sizes:
            gates = list(range(n, n + N))
            pair_choices = [list(itertools.combinations(range(g), 2))[::-1 if exact else 1] for g in gates]
            for preds in itertools.product(*pair_choices):
                for tts in itertools.product(codes, repeat=N):
                    pd, td = dict(zip(gates, preds)), dict(zip(gates, tts))
                    x = natural_values(n, N, pd, td)
                    outs = []
                    for row in table:
                        hit = next((g for g in gates if all(not isinstance(row[t], bool) or x[g][t] == row[t] for t in range(1 << n))), None)
                        if hit is None:
                            break
                        outs.append(hit)
                    else:
                        spec = [(str(i), 'INPUT', ()) for i in range(n)]
                        for g in gates:
                            spec.append((f's{g}', semantics.CODE_TO_NAME[td[g]], tuple(str(p) if p < n else f's{p}' for p in pd[g])))
                        return M.new_circuit(spec, [f's{g}' for g in outs])
        raise InterpRaise('NoSolutionError')


def fold_minimize(ck: Checker, R: str, handmade_only=False):
    """`handmade_only`: the hand-made circuits under one configuration (used by C02 for the writes this module makes to circuit state)."""
    repo = ck.repo
    M = cm.Model(repo, Denotations(repo), real_gates=True)
    it = M.interp
    it.allow_while = True
    it.real_super = True
    it.max_steps = 8_000_000
    it.max_depth = 80
    sm = repo.mod(SUBC)
    _Finder.M, _Finder.it = M, it
    it.overrides[f'{SEARCH}.CircuitFinderSat'] = _Finder
    from .passes import _HostCNF, _BruteSolver
    it.overrides['pysat.formula.CNF'] = _HostCNF
    it.overrides['pysat.solvers.Solver'] = _BruteSolver
    it.externals['pysat.formula.CNF'] = _HostCNF
    it.externals['pysat.solvers.Solver'] = _BruteSolver
    it._globals_cache.clear()
    current = {}

    def enumerate_cuts(text, cut_size, *a, **k):
        c = current['c']
        # the oracle needs top_sort etc. on the instance: a light view over the state
        class V:
            pass
        view = _View(c)
        found = [(node, [list(cut) for cut in cuts]) for node, cuts in oracle_cuts(view, cut_size).items()]
        if current.get('rev'):
            found = [(node, cuts[::-1]) for node, cuts in reversed(found)]
        return dict(found)
    it.externals['mockturtle_wrapper.enumerate_cuts'] = enumerate_cuts
    it.overrides['mockturtle_wrapper.enumerate_cuts'] = enumerate_cuts
    fn = sm.func('minimize_subcircuits')
    run = RepoFunc(it, sm, fn)
    buckets = {'validation': [], 'truth table': [], 'complemented output': [], 'interface': [], 'size': [], 'GateHasUsersError': [], 'KeyError': [], 'DeleteBlockError': [], 'other internal error': []}
    n = 0
    it.executed = {}
    fam = _family(ck.tier)
    if handmade_only:
        fam = fam[:len(fam) - (14 if ck.tier == 'quick' else 120)]
    for spec, outs in fam:
        inputs = [l for l, t, _ in spec if t == 'INPUT']
        has_equiv = _equivalent_gates(spec)
        n_hand = len(fam) - (0 if handmade_only else (14 if ck.tier == 'quick' else 120))
        is_hand = fam.index((spec, outs)) < n_hand
        stored_rev = [x for x in spec if x[1] == 'INPUT'] + [x for x in spec if x[1] != 'INPUT'][::-1]
        # (a circuit read from a bench text may store a gate before its operands: the hand-made circuits are also run stored users-first)
        for mode, basis, cut_size, rev, users_first in ([c_ + (False,) for c_ in (CONFIGS[1:2] if handmade_only else CONFIGS)] + ([('search', 'XAIG', 3, False, True)] if is_hand and not handmade_only else [])):
                if True:
                    n += 1
                    _Finder.mode = mode
                    current['rev'] = rev
                    c = M.new_circuit(stored_rev if users_first else spec, outs)
                    current['c'] = c
                    before_tt = [[state_values(c, dict(zip(inputs, bits)))[o] for bits in itertools.product((False, True), repeat=len(inputs))] for o in outs]
                    size0 = _nontrivial(c)
                    desc = f'{[(l, t) + tuple(o) for l, t, o in spec if t != "INPUT"]} outputs {list(outs)} (basis {basis}, cuts of <= {cut_size} leaves{", enumerated in reverse" if rev else ""}, synthesiser oracle: {mode}{", gates stored users-first" if users_first else ""})'
                    it.steps = 0
                    M.den.interp.steps = 0
                    try:
                        res = run(c, basis=basis, cut_size=cut_size, max_subcircuit_size=6, solver_time_limit_sec=1)
                    except InterpRaise as e:
                        if DEBUG:
                            print('RUN', desc, 'raises', e.exc_name, has_equiv)
                        if has_equiv:
                            continue     # the statement promises completion only without functionally equivalent gates
                        key = e.exc_name if e.exc_name in buckets else 'other internal error'
                        buckets[key].append(f'raises {e.exc_name} on {desc}')
                        continue
                    d = res._d
                    if DEBUG:
                        print('RUN', desc, '=>', [(l, g.gate_type.name) + tuple(g.operands) for l, g in d['_gates'].items() if g.gate_type.name != 'INPUT'], list(d['_outputs']))
                    if list(d['_inputs']) != inputs or len(d['_outputs']) != len(outs) or cm.invariant_problems(res):
                        buckets['interface'].append(f'result has inputs {list(d["_inputs"])}, {len(d["_outputs"])} outputs' + (f', {cm.invariant_problems(res)[0]}' if cm.invariant_problems(res) else '') + f' on {desc}')
                        continue
                    try:
                        after_tt = [[state_values(res, dict(zip(inputs, bits)))[o] for bits in itertools.product((False, True), repeat=len(inputs))] for o in d['_outputs']]
                    except (KeyError, TypeError, AnalysisError):
                        buckets['interface'].append(f'the result cannot be evaluated on {desc}')
                        continue
                    wrong = after_tt != before_tt
                    if mode in ('search', 'exact_rev') and cut_size == 3 and not rev and not users_first:
                        # the same run with validation enabled: FailedValidationError exactly when the unvalidated result is wrong
                        c2 = M.new_circuit(spec, outs)
                        current['c'] = c2
                        it.steps = 0
                        M.den.interp.steps = 0
                        try:
                            run(c2, basis=basis, cut_size=cut_size, max_subcircuit_size=6, solver_time_limit_sec=1, enable_validation=True)
                            failed = False
                        except InterpRaise as e:
                            failed = e.exc_name == 'FailedValidationError'
                            if not failed and not has_equiv:
                                buckets['validation'].append(f'with validation enabled the run raises {e.exc_name} on {desc}')
                        if failed != wrong and not (failed is False and has_equiv and wrong is False):
                            buckets['validation'].append((f'validation passes a result whose truth table differs' if wrong else 'validation reports a failure although the result has the same truth table') + f' on {desc}')
                    # (only when it is again a circuit over the supported gate set: the synthesiser may hand back LNOT gates, which
                    # minimize_subcircuits documents as unsupported input)
                    if not wrong and is_hand and mode in ('search', 'exact_rev') and cut_size == 3 and not rev and all(g.gate_type.var in SUPPORTED + ('INPUT',) for g in d['_gates'].values()):
                        # the result is a circuit like any other: minimising it once more must preserve the function again
                        current['c'] = res
                        it.steps = 0
                        M.den.interp.steps = 0
                        try:
                            res2 = run(res, basis=basis, cut_size=cut_size, max_subcircuit_size=6, solver_time_limit_sec=1)
                            d2 = res2._d
                            tt2 = [[state_values(res2, dict(zip(inputs, bits)))[o] for bits in itertools.product((False, True), repeat=len(inputs))] for o in d2['_outputs']] if list(d2['_inputs']) == inputs and len(d2['_outputs']) == len(outs) and not cm.invariant_problems(res2) else None
                            if tt2 != before_tt:
                                buckets['truth table'].append(f'a second minimisation of the result changes the function ({tt2}) on {desc}')
                        except InterpRaise as e:
                            if not has_equiv and not _equivalent_gates([(l, g.gate_type.var, tuple(g.operands)) for l, g in res._d['_gates'].items()]):
                                key2 = e.exc_name if e.exc_name in buckets else 'other internal error'
                                buckets[key2].append(f'a second minimisation of the result raises {e.exc_name} on {desc}')
                        except (KeyError, TypeError, AnalysisError):
                            buckets['interface'].append(f'the result of a second minimisation cannot be evaluated on {desc}')
                    if after_tt != before_tt:
                        k = next(i for i in range(len(outs)) if after_tt[i] != before_tt[i])
                        flipped = all(after_tt[i] == before_tt[i] or after_tt[i] == [not v for v in before_tt[i]] for i in range(len(outs)))
                        buckets['complemented output' if flipped else 'truth table'].append(f'output {k} computes {"".join(str(int(v)) for v in after_tt[k])} instead of {"".join(str(int(v)) for v in before_tt[k])} on {desc}')
                    elif _nontrivial(res) > size0:
                        buckets['size'].append(f'{_nontrivial(res)} non-trivial gates instead of {size0} on {desc}')
    texts = {
        'validation': 'with enable_validation the call raises FailedValidationError exactly when the unvalidated result has another truth table (validation itself is sound and complete)',
        'truth table': 'the minimised circuit has the same truth table (differences other than a complemented output)',
        'complemented output': 'no output of the minimised circuit is the complement of the original one',
        'DeleteBlockError': 'no DeleteBlockError on circuits without functionally equivalent gates',
        'interface': 'the minimised circuit has the same inputs in order, the same number of outputs and is well formed',
        'size': 'the minimised circuit has not more non-trivial gates',
        'GateHasUsersError': 'no GateHasUsersError on circuits without functionally equivalent gates',
        'KeyError': 'no KeyError on circuits without functionally equivalent gates',
        'other internal error': 'no other internal error on circuits without functionally equivalent gates',
    }
    for key, pr in buckets.items():
        ck.check(not pr, R, sm, fn, f'minimize_subcircuits folded end to end ({n} runs: model circuits x bases x cut sizes x synthesiser oracles): {texts[key]}', '; '.join(pr[:2]) + (f' (and {len(pr) - 2} more runs)' if len(pr) > 2 else ''),
                 construct=f'minimize_subcircuits over the circuit family: {key}')
    ck.add_coverage(it)
    ck.notes['minimize_runs'] = n
    ck.assume('minimize_subcircuits is folded over a bounded family of model circuits (<= 3 inputs, <= 6 gates) with an oracle cut family and a synthesiser oracle (exhaustive search over <= 2 gates, or none); the real cut enumerator, the SAT-based synthesiser and the time limit are not exercised')


class _View:
    """What subc_fold.oracle_cuts needs from a circuit (operands-first order, gates), over an instance state."""

    def __init__(self, c):
        self.c = c

    def top_sort(self, *, inverse=False):
        d = self.c._d
        order, done = [], set()

        def visit(l):
            if l in done:
                return
            for o in d['_gates'][l].operands:
                visit(o)
            done.add(l)
            order.append(_G(d['_gates'][l]))
        for l in list(d['_gates']):
            visit(l)
        return iter(order if inverse else list(reversed(order)))


class _G:
    def __init__(self, g):
        self.label = g.label
        self.operands = tuple(g.operands)
        self.gate_type = _T(g.gate_type.name)


class _T:
    def __init__(self, name):
        self.var = name
