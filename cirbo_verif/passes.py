"""Fold of the simplification passes (`_transform` of RemoveRedundantGates, MergeUnaryOperators,
MergeDuplicateGates, MergeEquivalentGates) over a bounded family of model circuits.

The passes are closed rebuild templates: a fresh circuit, a traversal of the argument with
hooks, and bookkeeping dictionaries.  The mini-evaluator folds them over a recording model of
the circuit whose traversals are *oracles* (any valid post-order: two different ones are used,
so a pass that is only right for one visiting order is reported).  Nothing of cirbo is imported
or executed; the family is bounded (stated as an assumption) but generated to contain the
shapes the property text names: n-ary gates, L*/R* pseudo-unary gates, constants with and
without operands, outputs that are inputs or repeated, dead logic, duplicates on several levels,
gates functionally equal to their own ancestors.
"""

from __future__ import annotations

import itertools
import random

from .core import AnalysisError, Checker
from .interp import Instance, Interp, InterpRaise, RepoClass, RepoFunc
from .rewrites import FakeCircuit, FakeGate
from .tables import Denotations, GateTypeVal, gate_overrides
from . import semantics

SIMPL = 'cirbo.minimization.simplification'
NEG = ('NOT', 'LNOT', 'RNOT')
BUF = ('IFF', 'LIFF', 'RIFF')


class PassModel(FakeCircuit):
    """Argument circuit with oracle traversals (the traversal itself is C20's subject)."""

    order = 'fwd'

    def _seq(self, xs):
        xs = list(xs)
        return xs if self.order == 'fwd' else list(reversed(xs))

    def top_sort(self, *, inverse=False):
        order, done = [], set()

        def visit(l):
            if l in done:
                return
            for o in self._seq(self._gates[l].operands):
                visit(o)
            done.add(l)
            order.append(self._gates[l])
        for l in self._seq(self._gates):
            visit(l)
        return iter(order if inverse else list(reversed(order)))

    def dfs(self, start_gates=None, *, inverse=False, on_enter_hook=None, on_discover_hook=None, on_exit_hook=None, unvisited_hook=None,
            on_traversal_end_hook=None, topsort_unvisited=False):
        states, seen = {}, []

        def nexts(l):
            # towards the operands, or (inverse) towards the users
            return self._gates[l].operands if not inverse else list(dict.fromkeys(self._gate_to_users.get(l, [])))

        def visit(l):
            if l in states:
                return
            states[l] = 'ENTERED'
            if on_enter_hook:
                on_enter_hook(self._gates[l], states)
            for o in self._seq(nexts(l)):
                if on_discover_hook:
                    on_discover_hook(self._gates[o], states)
                visit(o)
            states[l] = 'VISITED'
            seen.append(l)
            if on_exit_hook:
                on_exit_hook(self._gates[l], states)
        for l in self._seq(start_gates if start_gates is not None else (self._outputs if not inverse else self._inputs)):
            visit(l)
        if unvisited_hook:
            rest = list(self.top_sort(inverse=True)) if topsort_unvisited else [self._gates[l] for l in self._seq(self._gates)]
            for g in rest:
                if g.label not in states:
                    unvisited_hook(g, states)
        if on_traversal_end_hook:
            on_traversal_end_hook(states)
        return iter(seen)

    def get_gates_truth_table(self):
        tt = {l: [] for l in [g.label for g in self.top_sort(inverse=True)]}
        for vals in itertools.product((False, True), repeat=len(self._inputs)):
            a = dict(zip(self._inputs, vals))
            for l in tt:
                tt[l].append(self.evaluate(l, a))
        return tt

    def get_gate_users(self, label):
        return list(self._gate_to_users.get(label, []))

    @property
    def input_size(self):
        return len(self._inputs)

    @property
    def output_size(self):
        return len(self._outputs)

    def output_at_index(self, i):
        if not 0 <= i < len(self._outputs):
            raise InterpRaise('GateDoesntExistError')
        return self._outputs[i]

    @property
    def size(self):
        return len(self._gates)

    # model helpers
    def reachable(self):
        seen, stack = set(), list(self._outputs)
        while stack:
            l = stack.pop()
            if l in seen:
                continue
            seen.add(l)
            stack.extend(self._gates[l].operands)
        return seen

    def struct(self):
        return ({l: (g.gate_type.var, tuple(g.operands)) for l, g in self._gates.items()}, list(self._inputs), list(self._outputs))

    def tt_of(self, label, inputs):
        return tuple(self.evaluate(label, dict(zip(inputs, vals))) for vals in itertools.product((False, True), repeat=len(inputs)))


# ---------------------------------------------------------------------------
# the family

_POOL2 = ['AND', 'OR', 'XOR', 'NAND', 'NOR', 'NXOR', 'GT', 'LT', 'GEQ', 'LEQ', 'LNOT', 'RNOT', 'LIFF', 'RIFF']
_POOL1 = ['NOT', 'IFF']
_POOLN = ['AND', 'OR', 'XOR', 'NAND', 'NOR', 'NXOR']
_NAMES = ['q', 'm', 'z', 'c', 'w', 'e', 'u', 'k', 'p', 'd', 'v', 'h', 'r', 'j', 's', 'f']


def _spec_random(rnd: random.Random):
    n_in = rnd.choice((1, 2, 2, 3))
    n_g = rnd.randint(1, 7)
    names = rnd.sample(_NAMES, n_in + n_g)
    spec = [(names[i], 'INPUT', ()) for i in range(n_in)]
    for k in range(n_g):
        avail = [s[0] for s in spec]
        r = rnd.random()
        prev = [s for s in spec if s[1] != 'INPUT']
        if prev and r < 0.25:
            # a duplicate of an earlier gate (operands possibly permuted, or taken from an equal gate)
            _, t, ops = rnd.choice(prev)
            ops = list(ops)
            if rnd.random() < 0.5:
                ops.reverse()
            spec.append((names[n_in + k], t, tuple(ops)))
            continue
        if r < 0.45:
            t = rnd.choice(_POOL1)
            ops = (rnd.choice(avail),)
        elif r < 0.52:
            t = rnd.choice(('ALWAYS_TRUE', 'ALWAYS_FALSE'))
            ops = () if rnd.random() < 0.5 or len(avail) < 1 else (rnd.choice(avail), rnd.choice(avail))
        elif r < 0.62 and len(avail) >= 2:
            t = rnd.choice(_POOLN)
            ops = tuple(rnd.choice(avail) for _ in range(3))
        else:
            t = rnd.choice(_POOL2)
            ops = (rnd.choice(avail), rnd.choice(avail))
        spec.append((names[n_in + k], t, ops))
    labels = [s[0] for s in spec]
    gates = labels[n_in:]
    outs = [rnd.choice(gates if rnd.random() < 0.8 else labels) for _ in range(rnd.randint(1, 3))]
    if rnd.random() < 0.2:
        outs.append(outs[0])
    return spec, outs


HANDMADE = [
    # outputs that are inputs / repeated, an unused input, dead logic
    ([('a', 'INPUT', ()), ('b', 'INPUT', ()), ('c', 'INPUT', ()), ('g', 'AND', ('a', 'b')), ('dead', 'OR', ('g', 'c'))], ['a', 'g', 'a', 'g']),
    # duplicates on two levels; the lower duplicate that is used is not the first of its class in either visiting order
    ([('a', 'INPUT', ()), ('b', 'INPUT', ()), ('c', 'INPUT', ()), ('x1', 'AND', ('a', 'b')), ('x2', 'AND', ('b', 'a')), ('x3', 'AND', ('a', 'b')),
      ('y1', 'OR', ('x2', 'c')), ('y2', 'OR', ('c', 'x2')), ('t', 'XOR', ('x1', 'x3'))], ['t', 'y1', 'y2', 'x1']),
    ([('a', 'INPUT', ()), ('b', 'INPUT', ()), ('c', 'INPUT', ()), ('x1', 'AND', ('a', 'b')), ('x2', 'AND', ('b', 'a')),
      ('y1', 'OR', ('x2', 'c')), ('y2', 'OR', ('c', 'x2'))], ['x1', 'y1', 'y2']),
    ([('a', 'INPUT', ()), ('b', 'INPUT', ()), ('c', 'INPUT', ()), ('x1', 'AND', ('a', 'b')), ('x2', 'AND', ('b', 'a')),
      ('y1', 'OR', ('x1', 'c')), ('y2', 'OR', ('c', 'x1'))], ['y2', 'y1', 'x2']),
    # order-sensitive twins must not be merged
    ([('a', 'INPUT', ()), ('b', 'INPUT', ()), ('p', 'GT', ('a', 'b')), ('q', 'GT', ('b', 'a')), ('r', 'LIFF', ('a', 'b')), ('s', 'LIFF', ('b', 'a')), ('o', 'OR', ('p', 'q'))], ['o', 'r', 's']),
    # a gate equal to its own ancestor, as output and as operand
    ([('a', 'INPUT', ()), ('z', 'INPUT', ()), ('g', 'AND', ('a', 'z')), ('h', 'AND', ('g', 'z')), ('o', 'OR', ('g', 'h'))], ['o']),
    ([('a', 'INPUT', ()), ('z', 'INPUT', ()), ('g', 'XOR', ('a', 'z')), ('o', 'IFF', ('g',))], ['o']),
    ([('a', 'INPUT', ()), ('z', 'INPUT', ()), ('g', 'XOR', ('a', 'z')), ('o', 'IFF', ('g',)), ('w', 'AND', ('g', 'a'))], ['w', 'o']),
    ([('a', 'INPUT', ()), ('z', 'INPUT', ()), ('g', 'XOR', ('a', 'z')), ('o', 'IFF', ('g',)), ('w', 'AND', ('g', 'a'))], ['o', 'w']),
    # constants: with operands whose cone is otherwise dead, and equal to non-constant gates
    ([('a', 'INPUT', ()), ('b', 'INPUT', ()), ('n', 'NOT', ('a',)), ('k', 'ALWAYS_TRUE', ('n', 'b')), ('t', 'OR', ('a', 'n')), ('o', 'AND', ('k', 'b'))], ['o', 't']),
    ([('a', 'INPUT', ()), ('b', 'INPUT', ()), ('n', 'AND', ('a', 'b')), ('k', 'ALWAYS_FALSE', ('n', 'n'))], ['k']),
    ([('a', 'INPUT', ()), ('k1', 'ALWAYS_TRUE', ()), ('k2', 'ALWAYS_TRUE', ()), ('o', 'AND', ('k1', 'k2')), ('p', 'AND', ('a', 'k2'))], ['o', 'p']),
    # mixed unary chains: negation of a buffer, buffer of a negation, pseudo-unary forms
    ([('a', 'INPUT', ()), ('y', 'INPUT', ()), ('i', 'IFF', ('a',)), ('n', 'NOT', ('i',)), ('l', 'LNOT', ('n', 'y')), ('r', 'RIFF', ('y', 'l')), ('o', 'AND', ('r', 'n'))], ['o', 'n', 'r']),
    ([('a', 'INPUT', ()), ('y', 'INPUT', ()), ('n1', 'NOT', ('a',)), ('n2', 'NOT', ('n1',)), ('i', 'LIFF', ('b2', 'y')) if False else ('i', 'LIFF', ('n2', 'y')), ('o', 'AND', ('a', 'y')), ('p', 'AND', ('n2', 'i'))], ['o', 'p']),
    # n-ary gates with repeated operands
    ([('a', 'INPUT', ()), ('b', 'INPUT', ()), ('x', 'XOR', ('a', 'b', 'a')), ('y', 'XOR', ('a', 'a', 'b')), ('o', 'NAND', ('x', 'y', 'b'))], ['o', 'x']),
    # gates that differ only in how often an operand is listed (they are different functions for XOR / NXOR)
    ([('a', 'INPUT', ()), ('b', 'INPUT', ()), ('x', 'XOR', ('a', 'b', 'a')), ('y', 'XOR', ('b', 'a')), ('p', 'NXOR', ('a', 'b', 'b')), ('q', 'NXOR', ('a', 'b')), ('o', 'OR', ('x', 'y', 'p', 'q'))], ['x', 'y', 'p', 'q', 'o']),
    # the same operand in every position of an n-ary gate
    ([('a', 'INPUT', ()), ('b', 'INPUT', ()), ('x', 'XOR', ('a', 'a', 'a')), ('y', 'NXOR', ('b', 'b', 'b')), ('z', 'AND', ('a', 'a', 'a')), ('o', 'OR', ('x', 'y', 'z'))], ['o', 'x', 'y']),
    # duplicates that appear only once unary chains are collapsed (the order of the merging passes matters)
    ([('a', 'INPUT', ()), ('b', 'INPUT', ()), ('n1', 'NOT', ('a',)), ('n2', 'NOT', ('n1',)), ('i', 'IFF', ('b',)), ('g1', 'AND', ('a', 'b')), ('g2', 'AND', ('n2', 'i')), ('o', 'XOR', ('g1', 'g2'))], ['o', 'g2', 'g1']),
    # nothing but inputs as outputs
    ([('a', 'INPUT', ()), ('b', 'INPUT', ())], ['b', 'b', 'a']),
    # a pseudo-unary gate whose *ignored* operand is shared with the gate that reads it (x and not-y is not a contradiction)
    ([('x', 'INPUT', ()), ('y', 'INPUT', ()), ('r', 'RNOT', ('x', 'y')), ('l', 'LNOT', ('y', 'x')), ('g', 'AND', ('x', 'r')), ('h', 'NOR', ('x', 'l')), ('k', 'OR', ('y', 'l', 'g'))], ['g', 'h', 'k']),
    # chains whose unary gates are all negations / all buffers (the two post-conditions of MergeUnaryOperators), inner links read from outside
    ([('x', 'INPUT', ()), ('y', 'INPUT', ()), ('n1', 'NOT', ('x',)), ('n2', 'NOT', ('n1',)), ('n3', 'NOT', ('n2',)), ('o', 'AND', ('n3', 'y'))], ['o', 'n3', 'n2']),
    ([('x', 'INPUT', ()), ('y', 'INPUT', ()), ('b1', 'IFF', ('x',)), ('b2', 'IFF', ('b1',)), ('b3', 'IFF', ('b2',)), ('o', 'OR', ('b3', 'y'))], ['o', 'b3']),
]


def family(tier: str):
    rnd = random.Random(20240917)
    out = [(s, o) for s, o in HANDMADE]
    n = 150 if tier == 'quick' else 1500
    for _ in range(n):
        out.append(_spec_random(rnd))
    return out


def build(types, spec, outs, order='fwd'):
    c = PassModel(types['INPUT'])
    c.order = order
    for label, t, ops in spec:
        c.emplace_gate(label, types[t], tuple(ops))
    c._outputs = list(outs)
    c.log.clear()
    return c


class RealBench:
    """Model circuits as instances of the repository's own Circuit class (its constructors, users bookkeeping and traversals
    run as they stand), and their conversion into a PassModel snapshot so that the same judgement functions apply."""

    def __init__(self, repo, max_steps=8_000_000):
        from . import circuit_model as _cm
        self.repo = repo
        # the repository's own Gate class as well (format_gate, __eq__, ...)
        self.M = _cm.Model(repo, Denotations(repo), real_gates=True)
        it = self.it = self.M.interp
        it.allow_while = True
        it.eager_generators.add('cirbo.core.circuit.circuit.Circuit.top_sort')
        it.eager_generators.add('cirbo.core.circuit.circuit.Circuit._traverse_circuit')
        it.executed = {}
        it.real_super = True
        it.instance_dunders = True
        it.max_steps = max_steps
        it.max_depth = 120
        for g in ('linearize_transformers', 'linearize_reduce_transformers', 'as_distinct'):
            it.eager_generators.add(f'{TRANSFORMER}.{g}')
        self.types = self.M.types

    def circuit(self, spec, outs, users_first=False):
        stored = spec
        if users_first:
            stored = [x for x in spec if x[1] == 'INPUT'] + [x for x in spec if x[1] != 'INPUT'][::-1]
        return self.M.build_circuit(stored, outs)

    def model(self, inst) -> 'PassModel':
        d = inst._d
        pm = PassModel(self.types['INPUT'])
        for label, g in d['_gates'].items():
            pm._gates[label] = FakeGate(g.label, self.types[g.gate_type.var], tuple(g.operands))
        for k, v in d['_gate_to_users'].items():
            if v:
                pm._gate_to_users[k] = list(v)
        pm._inputs = list(d['_inputs'])
        pm._outputs = list(d['_outputs'])
        return pm

    def new_pass(self, modname, cname, **kw):
        m = self.repo.mod(f'{SIMPL}.{modname}')
        self.it.steps = 0
        return self.it.instantiate(RepoClass(m, m.cls(cname)), (), kw)

    def call(self, inst, name, *a, **k):
        self.it.steps = 0
        self.M.den.interp.steps = 0
        return self.it.getattr(inst._cls.mod, None, inst, name)(*a, **k)


def signature(g):
    t = g.gate_type.var
    ops = tuple(g.operands)
    if g.gate_type.is_symmetric:
        ops = tuple(sorted(ops))
    return (t,) + ops


# ---------------------------------------------------------------------------


class Passes:
    def __init__(self, repo):
        self.repo = repo
        self.den = Denotations(repo)
        ov = gate_overrides(self.den)
        self.types = {t.var: t for t in ov.values() if isinstance(t, GateTypeVal)}
        ov['cirbo.core.circuit.circuit.Circuit'] = lambda: PassModel(self.types['INPUT'])
        self.it = Interp(repo, overrides=ov, max_steps=3_000_000)
        self.passes = {}
        for modname, cname, kwargs in (('remove_redundant_gates', 'RemoveRedundantGates', {}),
                                       ('remove_redundant_gates', 'RemoveRedundantGates', {'allow_inputs_removal': True}),
                                       ('merge_unary_operators', 'MergeUnaryOperators', {}),
                                       ('merge_duplicate_gates', 'MergeDuplicateGates', {}),
                                       ('merge_equivalent_gates', 'MergeEquivalentGates', {})):
            m = repo.mod(f'{SIMPL}.{modname}')
            cls = RepoClass(m, m.cls(cname))
            try:
                inst = self.it.instantiate(cls, (), dict(kwargs))
            except (InterpRaise, AnalysisError):
                inst = Instance(cls)
                for k, v in kwargs.items():
                    setattr(inst, '_' + k, v)
            key = cname + ('(allow_inputs_removal=True)' if kwargs else '')
            self.passes[key] = (m, m.func(f'{cname}._transform'), inst)

    def run(self, key, c):
        m, fn, inst = self.passes[key]
        self.it.steps = 0
        return RepoFunc(self.it, m, fn, bound_self=inst)(c)


def check_result(c: PassModel, new, key, before):
    """Problems of `new` = pass(c) against the clauses common to every pass."""
    probs = []
    if not isinstance(new, FakeCircuit) or new is c:
        return ['the pass does not return a new circuit']
    if c.struct() != before:
        probs.append('the argument circuit was modified')
    removal = key.endswith('(allow_inputs_removal=True)')
    if not removal and new._inputs != c._inputs:
        probs.append(f'inputs {new._inputs} instead of {c._inputs}')
    if removal:
        live_in = [i for i in c._inputs if i in c.reachable()]
        if new._inputs != live_in:
            probs.append(f'inputs {new._inputs} instead of the reachable inputs {live_in} in order')
    if len(new._outputs) != len(c._outputs):
        probs.append(f'{len(new._outputs)} outputs instead of {len(c._outputs)}')
        return probs
    for o in new._outputs:
        if o not in new._gates:
            probs.append(f'output {o!r} names no gate of the result')
            return probs
    for l, g in new._gates.items():
        for o in g.operands:
            if o not in new._gates:
                probs.append(f'operand {o!r} of {l!r} names no gate')
                return probs
    if new.users_index() != new.users_from_gates():
        probs.append('users index of the result does not mirror its operands')
    if sorted(new._inputs) != sorted(l for l, g in new._gates.items() if g.gate_type.var == 'INPUT'):
        probs.append('input list of the result is not its set of INPUT gates')
    if len(new._gates) > len(c._gates):
        probs.append(f'result has {len(new._gates)} gates, argument {len(c._gates)}')
    for vals in itertools.product((False, True), repeat=len(c._inputs)):
        a = dict(zip(c._inputs, vals))
        want = [c.evaluate(o, a) for o in c._outputs]
        got = [new.evaluate(o, a) for o in new._outputs]
        if want != got:
            probs.append(f'outputs {got} instead of {want} on {a}')
            break
    return probs


def post_problems(P: Passes, c: PassModel, new: PassModel, key, literal=False, run=None):
    """Stated post-conditions (C18).  `literal`: `new` is the result of the public entry point (`transform`, with the
    pre-/post-passes the class declares): the post-condition must hold for it as it stands."""
    probs = []
    run = run or (P.run if P is not None else None)    # `run(key, model)`: how a pass is applied once more to a result
    name = key.split('(')[0]
    if name == 'RemoveRedundantGates' and not literal:
        want = c.reachable() | (set() if '(' in key else set(c._inputs))
        if set(new._gates) != want:
            probs.append(f'gates {sorted(new._gates)} instead of exactly the reachable ones {sorted(want)}')
        new.order = c.order
        try:
            again = run(key, new)
            if again.struct() != new.struct():
                probs.append('applying the pass a second time changes the circuit again')
        except InterpRaise as e:
            probs.append(f'second application raises {e.exc_name}')
        return probs
    # merging passes state their post-condition after the implied RemoveRedundantGates
    new.order = c.order
    if literal:
        fin = new
    else:
        try:
            fin = run('RemoveRedundantGates', new)
        except InterpRaise as e:
            return [f'implied RemoveRedundantGates raises {e.exc_name}']
    if name == 'MergeDuplicateGates':
        seen = {}
        for l, g in fin._gates.items():
            if g.gate_type.var == 'INPUT':
                continue
            s = signature(g)
            if s in seen:
                probs.append(f'{seen[s]} and {l} both are {s[0]}{s[1:]} after merging duplicates')
                break
            seen[s] = l
    elif name == 'MergeEquivalentGates':
        seen = {}
        for l, g in fin._gates.items():
            if g.gate_type.var == 'INPUT':
                continue
            t = fin.tt_of(l, fin._inputs)
            if t in seen:
                probs.append(f'non-input gates {seen[t]} and {l} have the same truth table after merging equivalent gates')
                break
            seen[t] = l
    elif name == 'MergeUnaryOperators':
        live = fin.reachable()
        un = {l for l in live if fin._gates[l].gate_type.var in NEG + BUF}
        src = {l for l in c.reachable() if c._gates[l].gate_type.var in NEG + BUF}
        kinds = {('n' if c._gates[l].gate_type.var in NEG else 'b') for l in src}

        def sig_operand(g):
            return g.operands[1] if g.gate_type.var in ('RNOT', 'RIFF') else g.operands[0]
        if kinds == {'n'}:
            for l in un:
                o = sig_operand(fin._gates[l])
                if fin._gates[l].gate_type.var in NEG and fin._gates[o].gate_type.var in NEG:
                    probs.append(f'{l} is still a negation of the negation {o}')
                    break
        if kinds == {'b'}:
            bufs = {l for l in live if fin._gates[l].gate_type.var in BUF}
            used = [l for l in live for o in fin._gates[l].operands if o in bufs and l not in bufs] + [o for o in fin._outputs if o in bufs]
            if used:
                probs.append('a buffer is still used as operand or output')
    return probs


def fold_passes(ck: Checker, R_common: str, R_post: str | None = None, only=None):
    """One obligation per pass (and per rule): the pass folded over the whole family in two
    visiting orders."""
    repo = ck.repo
    P = Passes(repo)
    fam = family(ck.tier)
    n_runs = 0
    # the same passes on instances of the repository's own Circuit class (constructors, users bookkeeping, dfs / top_sort as they
    # stand): the hand-made circuits, stored operands-first and users-first, plus a slice of the seeded ones
    RB = RealBench(repo)
    real_passes = {}
    for modname, cname, kwargs in (('remove_redundant_gates', 'RemoveRedundantGates', {}), ('remove_redundant_gates', 'RemoveRedundantGates', {'allow_inputs_removal': True}),
                                   ('merge_unary_operators', 'MergeUnaryOperators', {}), ('merge_duplicate_gates', 'MergeDuplicateGates', {}), ('merge_equivalent_gates', 'MergeEquivalentGates', {})):
        real_passes[cname + ('(allow_inputs_removal=True)' if kwargs else '')] = RB.new_pass(modname, cname, **kwargs)
    real_fam = [(sp, ou, uf) for sp, ou in HANDMADE for uf in (False, True)] + [(sp, ou, False) for sp, ou in fam[len(HANDMADE):len(HANDMADE) + (12 if ck.tier == 'quick' else 60)]]
    for key, (m, fn, inst) in P.passes.items():
        if only and key.split('(')[0] not in only:
            continue
        common, post = [], []
        oracle_model_applies = True
        for spec, outs, users_first in real_fam:
            n_runs += 1
            desc = f'{[(l, t) + tuple(o) for l, t, o in spec if t != "INPUT"]} outputs {outs} (instance of the repository\'s Circuit class{", gates stored users-first" if users_first else ""})'
            try:
                rc = RB.circuit(spec, outs, users_first)
                c = RB.model(rc)
                before = c.struct()
                rnew = RB.call(real_passes[key], '_transform', rc)
            except InterpRaise as e:
                common.append(f'raises {e.exc_name} on {desc}')
                continue
            if rnew is rc:
                common.append(f'the pass returns its argument object instead of a new circuit on {desc}')
                continue
            if not isinstance(rnew, Instance):
                common.append(f'the pass does not return a circuit on {desc}')
                continue
            after = RB.model(rc)
            new = RB.model(rnew)
            if after.struct() != before or after.users_index() != c.users_index():
                common.append(f'the argument circuit was modified on {desc}')
                continue
            pr = check_result(c, new, key, before)
            if pr:
                common.append(f'{pr[0]} on {desc}')
                continue
            if R_post:
                # (results are run through the passes again on the same kind of instance they were computed on)
                new._real = rnew

                def real_run(k, model):
                    out = RB.call(real_passes[k], '_transform', model._real)
                    mo = RB.model(out)
                    mo._real = out
                    return mo
                pp = post_problems(P, c, new, key, run=real_run)
                if pp:
                    post.append(f'{pp[0]} on {desc}')
            if len(common) > 3 or len(post) > 3:
                break
        for spec, outs in fam:
            for order in ('fwd', 'rev'):
                c = build(P.types, spec, outs, order)
                before = c.struct()
                n_runs += 1
                desc = f'{[(l, t) + tuple(o) for l, t, o in spec if t != "INPUT"]} outputs {outs} ({order} visiting order)'
                try:
                    new = P.run(key, c)
                except InterpRaise as e:
                    common.append(f'raises {e.exc_name} on {desc}')
                    continue
                except AnalysisError as e:
                    # the pass uses a part of the Circuit interface the oracle-traversal model does not have: the runs on real
                    # instances above have decided; the two-visiting-order runs are recorded as not applicable
                    oracle_model_applies = False
                    ck.notes.setdefault('structural_rules_not_applicable', []).append(f'oracle-traversal model of {key}: {str(e)[:160]} [decided on instances of the repository\'s Circuit class]')
                    break
                pr = check_result(c, new, key, before)
                if pr:
                    common.append(f'{pr[0]} on {desc}')
                    continue
                if R_post:
                    try:
                        pp = post_problems(P, c, new, key)
                    except AnalysisError as e:
                        # (the implied RemoveRedundantGates is outside the oracle-traversal model: decided on real instances above)
                        oracle_model_applies = False
                        ck.notes.setdefault('structural_rules_not_applicable', []).append(f'oracle-traversal model of the pass implied by {key}: {str(e)[:160]} [decided on instances of the repository\'s Circuit class]')
                        break
                    if pp:
                        post.append(f'{pp[0]} on {desc}')
            if len(common) > 3 or len(post) > 3 or not oracle_model_applies:
                break
        ck.check(not common, R_common, m, fn, f'{key} folded over {len(real_fam)} instances of the repository\'s Circuit class and {len(fam)} model circuits x 2 visiting orders of an oracle traversal: new circuit, argument untouched, same inputs (minus unreachable ones only on request), '
                 'same number of outputs, same output functions, well formed, not larger', '; '.join(common[:2]), construct=f'{key}._transform over the circuit family')
        if R_post:
            ck.check(not post, R_post, m, fn, f'{key} folded over {len(fam)} model circuits x 2 visiting orders: stated post-condition (after the implied RemoveRedundantGates for the merging passes)',
                     '; '.join(post[:2]), construct=f'{key}._transform post-condition over the circuit family')
    ck.notes['pass_folds'] = ck.notes.get('pass_folds', 0) + n_runs
    ck.assume('the simplification passes are folded over a bounded family of model circuits (hand-made shapes named by the property plus seeded random circuits with <= 3 inputs and <= 7 gates) with oracle traversals in two visiting orders; larger circuits are not decided')


# ---------------------------------------------------------------------------
# Tseytin transformation folded over the same family (C05)


def fold_tseytin(ck: Checker, R: str):
    """`tseytin_transformation(circuit[, outputs])` folded over the family, for all outputs and
    for every single selected output; the clause set is then decided against the circuit for every
    input assignment by unit propagation from the input variables (Tseytin definitions propagate
    forward): conflict exactly when a selected output is False, every encoded gate forced to its
    value, inputs are variables 1..n in order."""
    from .cnf_templates import TSEYTIN
    repo = ck.repo
    # (the circuits are instances of the repository's own Circuit class; a PassModel snapshot of each is the oracle's view)
    RB = RealBench(repo, max_steps=3_000_000)
    it = RB.it
    mod = repo.mod(TSEYTIN)
    fn = mod.func('tseytin_transformation')
    tf = RepoFunc(it, mod, fn)
    fam = family(ck.tier)
    fam = fam[:len(HANDMADE) + (60 if ck.tier == 'quick' else 600)]
    probs = []
    n_runs = 0

    def clauses_of(res):
        raw = res._d.get('_cnf') if isinstance(res, Instance) else res
        if not isinstance(raw, list):
            raise AnalysisError(f'{mod.rel}: tseytin_transformation does not return Cnf(list of clauses) (shape changed)')
        return [list(c) for c in raw]

    # every circuit twice: with its own outputs, and with every gate as an output (so that each gate's
    # variable is pinned to that gate's value by the single-output selections)
    variants = []
    for spec, outs in fam:
        variants.append((spec, outs))
        every = [l for l, t, _ in spec if t != 'INPUT']
        if every and every != list(outs):
            variants.append((spec, every))
    # and once more with the input list re-ordered after construction (order_inputs / set_inputs): variable i+1 is the i-th
    # entry of circuit.inputs, not the i-th INPUT gate added
    variants = [(s_, o_, False) for s_, o_ in variants] + [(s_, o_, True) for s_, o_ in HANDMADE if sum(1 for x in s_ if x[1] == 'INPUT') >= 2]
    for spec, outs, reorder in variants:
        try:
            rc = RB.circuit(spec, outs)
            if reorder:
                RB.call(rc, 'set_inputs', list(reversed(rc._d['_inputs'])))
        except InterpRaise as e:
            probs.append(f'building the circuit raises {e.exc_name}')
            continue
        c = RB.model(rc)
        # all outputs, every single output, two outputs against their order, and the explicitly empty selection
        sels = [None] + [[k] for k in range(len(outs))] + ([[len(outs) - 1, 0]] if len(outs) > 1 else []) + [[]]
        for sel in sels:
            n_runs += 1
            it.steps = 0
            RB.M.den.interp.steps = 0
            desc = f'{[(l, t) + tuple(o) for l, t, o in spec if t != "INPUT"]} outputs {outs}' + (f' selection {sel}' if sel is not None else '') + (f' (inputs re-ordered to {c._inputs})' if reorder else '')
            try:
                cnf = clauses_of(tf(rc) if sel is None else tf(rc, list(sel)))
            except InterpRaise as e:
                probs.append(f'raises {e.exc_name} on {desc}')
                continue
            chosen = list(outs) if sel is None else [outs[k] for k in sel]
            cone = set()
            stack = list(chosen)
            while stack:
                l = stack.pop()
                if l not in cone:
                    cone.add(l)
                    stack.extend(c._gates[l].operands)
            n = len(c._inputs)
            bad = None
            for vals in itertools.product((False, True), repeat=n):
                a = dict(zip(c._inputs, vals))
                assign = {i + 1: v for i, v in enumerate(vals)}
                ok = _propagate(cnf, assign)
                want = all(c.evaluate(o, a) for o in chosen)
                if ok and any(abs(l) not in assign for cl in cnf for l in cl):
                    bad = f'input assignment {a} does not determine every variable of the clause set (a gate variable has no defining clauses)'
                elif ok != want:
                    bad = f'with inputs {a} (variables 1..{n}) the clause set is {"satisfiable" if ok else "unsatisfiable"} although the selected outputs evaluate to {[c.evaluate(o, a) for o in chosen]}'
                elif ok:
                    # every gate of the cone must own one variable carrying its value: the multiset of forced values
                    # over non-input variables must be explainable gate by gate
                    gate_vals = sorted(c.evaluate(l, a) for l in cone if l not in c._inputs)
                    var_vals = sorted(v for k, v in assign.items() if k > n)
                    if len(var_vals) > len(gate_vals):
                        bad = f'{len(var_vals)} gate variables for {len(gate_vals)} encoded gates'
                if bad:
                    break
            if bad:
                probs.append(f'{bad} on {desc}')
        if len(probs) > 3:
            break
    ck.check(not probs, R, mod, fn, f'tseytin_transformation folded over {len(variants)} model circuits, all outputs and every single selected output ({n_runs} clause sets): under each input assignment (variables 1..n in input order) '
             'unit propagation determines every variable, and the set is satisfiable exactly when the selected outputs are True', '; '.join(probs[:2]), construct='tseytin_transformation over the circuit family')
    ck.assume('tseytin_transformation is folded over a bounded family of model circuits (<= 3 inputs, <= 7 gates, all gate types, repeated operands, shared cones)')


def _propagate(clauses, assign):
    changed = True
    while changed:
        changed = False
        for cl in clauses:
            unassigned = None
            n_un = 0
            sat = False
            for l in cl:
                v = assign.get(abs(l))
                if v is None:
                    n_un += 1
                    unassigned = l
                elif v == (l > 0):
                    sat = True
                    break
            if sat:
                continue
            if n_un == 0:
                return False
            if n_un == 1:
                assign[abs(unassigned)] = unassigned > 0
                changed = True
    return True


# ---------------------------------------------------------------------------
# pipelines (C18.LIN / IDEM / POST): cleanup, transform, apply_transformers and `|` against sequential application

TRANSFORMER = 'cirbo.core.circuit.transformer'


LITERAL = {'MergeDuplicateGates().transform(c)': 'MergeDuplicateGates', 'MergeEquivalentGates().transform(c)': 'MergeEquivalentGates', 'MergeUnaryOperators().transform(c)': 'MergeUnaryOperators'}


def fold_pipelines(ck: Checker, R: str):
    """Every way of running several passes -- `cleanup` (light / heavy), `P.transform`, `Transformer.apply_transformers`
    on a list, the pipe operator (nested, mixed with lists), lists with repeated idempotent passes -- gives the circuit
    obtained by applying the constituent passes (with the pre-/post-passes each one declares) one after another."""
    repo = ck.repo
    # (instances of the repository's own Circuit class: the passes, the pipeline machinery, the traversals and the constructors run
    # as they stand; results are compared as snapshots)
    RB = RealBench(repo)
    it = RB.it
    types = RB.types
    tm = repo.mod(TRANSFORMER)
    cl = repo.mod(f'{SIMPL}.cleanup')
    T = it.global_value(tm, 'Transformer')

    def new(modname, cname, **kw):
        return RB.new_pass(modname, cname, **kw)

    def make():
        return {'RRG': new('remove_redundant_gates', 'RemoveRedundantGates'), 'RRGi': new('remove_redundant_gates', 'RemoveRedundantGates', allow_inputs_removal=True),
                'MUO': new('merge_unary_operators', 'MergeUnaryOperators'), 'MDG': new('merge_duplicate_gates', 'MergeDuplicateGates'), 'MEG': new('merge_equivalent_gates', 'MergeEquivalentGates')}

    def lin(p):
        """Reference linearisation from the declared dependencies (attribute names are the class's documented ones)."""
        d = p._d
        if '_transformers' in d:
            return [x for ch in d['_transformers'] for x in lin(ch)]
        return [x for ch in d.get('_pre_transformers', ()) for x in lin(ch)] + [p] + [x for ch in d.get('_post_transformers', ()) for x in lin(ch)]

    def seq(c, passes_):
        cur = c
        for p in passes_:
            it.steps = 0
            RB.M.den.interp.steps = 0
            cur = it.getattr(p._cls.mod, None, p, '_transform')(cur)
        return cur

    fam = [x for x in HANDMADE] + family(ck.tier)[len(HANDMADE):len(HANDMADE) + (4 if ck.tier == 'quick' else 60)]
    TC = it.global_value(tm, 'TransformerComposition')

    def mkcomp(members):
        it.steps = 0
        return it.instantiate(TC, (list(members),), {})
    apply_t = it.getattr(tm, None, T, 'apply_transformers')
    cleanup = RepoFunc(it, cl, cl.func('cleanup'))
    scenarios = [
        ('cleanup(c)', lambda P, c: cleanup(c), lambda P: [P['RRG'], P['MUO'], P['MDG']]),
        ('cleanup(c, use_heavy=True)', lambda P, c: cleanup(c, use_heavy=True), lambda P: [P['RRG'], P['MUO'], P['MDG'], P['MEG']]),
        ('MergeDuplicateGates().transform(c)', lambda P, c: it.getattr(tm, None, P['MDG'], 'transform')(c), lambda P: [P['MDG']]),
        ('MergeEquivalentGates().transform(c)', lambda P, c: it.getattr(tm, None, P['MEG'], 'transform')(c), lambda P: [P['MEG']]),
        ('MergeUnaryOperators().transform(c)', lambda P, c: it.getattr(tm, None, P['MUO'], 'transform')(c), lambda P: [P['MUO']]),
        ('RemoveRedundantGates(allow_inputs_removal=True).transform(c)', lambda P, c: it.getattr(tm, None, P['RRGi'], 'transform')(c), lambda P: [P['RRGi']]),
        ('apply_transformers(c, [MUO, MDG])', lambda P, c: apply_t(c, [P['MUO'], P['MDG']]), lambda P: [P['MUO'], P['MDG']]),
        ('(MUO | MDG).transform(c)', lambda P, c: it.getattr(tm, None, P['MUO'] | P['MDG'], 'transform')(c), lambda P: [P['MUO'], P['MDG']]),
        ('(RRG | (MDG | MUO)).transform(c)', lambda P, c: it.getattr(tm, None, P['RRG'] | (P['MDG'] | P['MUO']), 'transform')(c), lambda P: [P['RRG'], P['MDG'], P['MUO']]),
        ('apply_transformers(c, [MDG | MUO, MEG])', lambda P, c: apply_t(c, [P['MDG'] | P['MUO'], P['MEG']]), lambda P: [P['MDG'], P['MUO'], P['MEG']]),
        ('apply_transformers(c, [RRG, RRG, RRGi, RRG])', lambda P, c: apply_t(c, [P['RRG'], P['RRG'], P['RRGi'], P['RRG']]), lambda P: [P['RRG'], P['RRG'], P['RRGi'], P['RRG']]),
        # repeated passes that do not declare themselves idempotent must really run twice; distinct compositions are distinct
        ('apply_transformers(c, [MUO, MUO, MDG, MDG])', lambda P, c: apply_t(c, [P['MUO'], P['MUO'], P['MDG'], P['MDG']]), lambda P: [P['MUO'], P['MUO'], P['MDG'], P['MDG']]),
        ('apply_transformers(c, [MEG, MEG])', lambda P, c: apply_t(c, [P['MEG'], P['MEG']]), lambda P: [P['MEG'], P['MEG']]),
        ('apply_transformers(c, [MUO | MDG, RRGi | MEG])', lambda P, c: apply_t(c, [P['MUO'] | P['MDG'], P['RRGi'] | P['MEG']]), lambda P: [P['MUO'], P['MDG'], P['RRGi'], P['MEG']]),
        # compositions built directly from a list (not through the pipe operator): the declared post-passes of the members are implied all the same
        ('TransformerComposition([MDG, MUO]).transform(c)', lambda P, c: it.getattr(tm, None, mkcomp([P['MDG'], P['MUO']]), 'transform')(c), lambda P: [P['MDG'], P['MUO']]),
        ('apply_transformers(c, [TransformerComposition([MDG]), MEG])', lambda P, c: apply_t(c, [mkcomp([P['MDG']]), P['MEG']]), lambda P: [P['MDG'], P['MEG']]),
        ('(MUO | TransformerComposition([MDG, RRGi])).transform(c)', lambda P, c: it.getattr(tm, None, P['MUO'] | mkcomp([P['MDG'], P['RRGi']]), 'transform')(c), lambda P: [P['MUO'], P['MDG'], P['RRGi']]),
        # the passes handed over as a one-shot iterator / generator (the signature says Iterable)
        ('apply_transformers(c, iter([MUO, MDG]))', lambda P, c: apply_t(c, iter([P['MUO'], P['MDG']])), lambda P: [P['MUO'], P['MDG']]),
        ('apply_transformers(c, (p for p in [RRG, MEG]))', lambda P, c: apply_t(c, (p_ for p_ in [P['RRG'], P['MEG']])), lambda P: [P['RRG'], P['MEG']]),
        # no state may survive a call: a light cleanup after a heavy one is still the light pipeline
        ('cleanup(c) after cleanup(c, use_heavy=True)', lambda P, c: (cleanup(c, use_heavy=True), cleanup(c))[1], lambda P: [P['RRG'], P['MUO'], P['MDG']]),
        ('apply_transformers(c, MUO | RRGi)', lambda P, c: apply_t(c, P['MUO'] | P['RRGi']), lambda P: [P['MUO'], P['RRGi']]),
        # a pass whose declared post-pass has dependencies of its own (they must be implied too)
        ('MUO with post-pass MDG: transform(c)', lambda P, c: (P['MUO']._d.__setitem__('_post_transformers', (P['MDG'],)), it.getattr(tm, None, P['MUO'], 'transform')(c))[1],
         lambda P: [P['MUO']]),
    ]
    n = 0
    for name, run_api, members in scenarios:
        probs = []
        # (the single-pass scenarios are also run on the hand-made circuits stored users-first, as a bench text with forward references gives them)
        runs = [(sp, ou, False) for sp, ou in fam] + ([(sp, ou, True) for sp, ou in HANDMADE] if name in LITERAL else [])
        for spec, outs, users_first in runs:
            n += 1
            P = make()
            c = RB.circuit(spec, outs, users_first)
            cm_ = RB.model(c)
            before = cm_.struct()
            desc = f'{[(l, t) + tuple(o) for l, t, o in spec if t != "INPUT"]} outputs {list(outs)}' + (' (gates stored users-first)' if users_first else '')
            try:
                it.steps = 0
                RB.M.den.interp.steps = 0
                got = run_api(P, c)
            except InterpRaise as e:
                probs.append(f'raises {e.exc_name} on {desc}')
                continue
            if RB.model(c).struct() != before:
                probs.append(f'the argument circuit was modified on {desc}')
                continue
            if got is c:
                probs.append(f'the argument object itself is returned instead of a new circuit on {desc}')
                continue
            c2 = RB.circuit(spec, outs, users_first)
            try:
                want = seq(c2, [x for p in members(P) for x in lin(p)])
            except InterpRaise as e:
                probs.append(f'sequential application raises {e.exc_name} on {desc}')
                continue
            gm = RB.model(got) if isinstance(got, Instance) else None
            wm = RB.model(want)
            if gm is None or gm.struct() != wm.struct():
                probs.append(f'result {gm.struct() if gm is not None else got!r} differs from applying the constituent passes one after another ({wm.struct()}) on {desc}')
            elif name in LITERAL:
                # the stated effect of the pass, on what its public entry point returns
                pp = post_problems(None, cm_, gm, LITERAL[name], literal=True)
                if pp:
                    probs.append(f'{pp[0]} in the result of the public entry point on {desc}')
            if len(probs) > 2:
                break
        ck.check(not probs, R, tm if 'cleanup' not in name else cl, (cl.func('cleanup') if 'cleanup' in name else tm.func('Transformer.apply_transformers')),
                 f'{name} equals applying its constituent passes (with their declared pre-/post-passes) one after another, argument untouched ({len(fam)} model circuits)',
                 '; '.join(probs[:2]), construct=f'pipeline {name}')
    ck.notes['pipeline_runs'] = n
    ck.assume('pipelines are folded over a bounded family of model circuits with oracle traversals; the constituent passes themselves are decided by C18.FOLD / C03.FOLD')


# ---------------------------------------------------------------------------
# the satisfiability query end to end (C05.SAT)


class _ModelCNF:
    def __init__(self, from_clauses=None, **k):
        self.clauses = [list(c) for c in (from_clauses or [])]
        self.same_object = from_clauses


from .interp import Host as _Host


class _HostCNF(_Host, _ModelCNF):
    pass


class _BruteSolver(_Host):
    """Model solver: sound and complete by exhaustive search over the variables of the formula."""

    log: list = []

    def __init__(self, name=None, **k):
        self.name = name
        self.clauses = []
        self.model = None
        _BruteSolver.log.append(('new', name))

    def __enter__(self):
        return self

    def __exit__(self, *a):
        _BruteSolver.log.append(('closed',))
        return False

    def append_formula(self, cnf):
        self.clauses += [list(c) for c in cnf.clauses]

    def add_clause(self, clause):
        self.clauses.append(list(clause))

    def solve(self, assumptions=()):
        vs = sorted({abs(l) for c in self.clauses for l in c} | {abs(l) for l in assumptions})
        for bits in itertools.product((False, True), repeat=len(vs)):
            a = dict(zip(vs, bits))
            if all(a[abs(l)] == (l > 0) for l in assumptions) and all(any(a[abs(l)] == (l > 0) for l in c) for c in self.clauses):
                self.model = [v if a[v] else -v for v in vs]
                return True
        self.model = None
        return False

    def get_model(self):
        return self.model


def fold_sat_query(ck: Checker, R: str):
    """is_circuit_satisfiable / is_satisfiable / Cnf.from_circuit folded with a model solver (exhaustive search): the answer is
    True exactly when some input assignment makes every output True, and a returned model satisfies the CNF and projects onto
    such an assignment (inputs are variables 1..n)."""
    repo = ck.repo
    RB = RealBench(repo, max_steps=4_000_000)
    it = RB.it
    for k_, v_ in (('pysat.formula.CNF', _HostCNF), ('pysat.solvers.Solver', _BruteSolver)):
        it.overrides[k_] = v_
        it.externals[k_] = v_
    it._globals_cache.clear()
    sm = repo.mod('cirbo.sat.sat')
    f = RepoFunc(it, sm, sm.func('is_circuit_satisfiable'))
    probs = []
    n = 0
    # no state may survive a reduction: a formula obtained for a circuit and then extended by the caller must not change what
    # a later query about the same circuit answers
    cm_ = repo.mod('cirbo.sat.cnf.cnf')
    try:
        Cnf = it.global_value(cm_, 'Cnf')
        rc = RB.circuit([('a', 'INPUT', ()), ('b', 'INPUT', ()), ('g', 'OR', ('a', 'b'))], ['g'])
        first = it.getattr(cm_, None, Cnf, 'from_circuit')(rc)
        it.getattr(cm_, None, first, 'add_clause')([-1])
        it.getattr(cm_, None, first, 'add_clause')([-2])
        it.steps = 0
        again = f(RB.circuit([('a', 'INPUT', ()), ('b', 'INPUT', ()), ('g', 'OR', ('a', 'b'))], ['g']))
        if not again._d.get('answer'):
            probs.append('after Cnf.from_circuit(c) was extended by its caller (add_clause), is_circuit_satisfiable on an equal circuit answers False for OR(a, b): the reduction hands out shared state')
    except InterpRaise as e:
        probs.append(f'Cnf.from_circuit / add_clause raises {e.exc_name}')
    fam = [x for x in HANDMADE] + family(ck.tier)[len(HANDMADE):len(HANDMADE) + (25 if ck.tier == 'quick' else 200)]
    # no output at all: every assignment makes "all outputs" True, and the formula has no clause and no variable
    fam += [([('a', 'INPUT', ())], []), ([('a', 'INPUT', ()), ('b', 'INPUT', ()), ('g', 'AND', ('a', 'b'))], []), ([], [])]
    for spec, outs in fam:
        n += 1
        rc = RB.circuit(spec, outs)
        c = RB.model(rc)
        desc = f'{[(l, t) + tuple(o) for l, t, o in spec if t != "INPUT"]} outputs {list(outs)}'
        it.steps = 0
        RB.M.den.interp.steps = 0
        _BruteSolver.log = []
        try:
            res = f(rc)
        except InterpRaise as e:
            probs.append(f'raises {e.exc_name} on {desc}')
            continue
        ans, model = res._d.get('answer'), res._d.get('model')
        sat_a = [vals for vals in itertools.product((False, True), repeat=len(c._inputs)) if all(c.evaluate(o, dict(zip(c._inputs, vals))) for o in outs)]
        if bool(ans) != bool(sat_a):
            probs.append(f'answers {ans} although {"an assignment" if sat_a else "no assignment"} makes every output True, on {desc}')
        elif ans:
            proj = tuple((i + 1) in model for i in range(len(c._inputs)))
            if proj not in sat_a:
                probs.append(f'the returned model projects onto inputs {proj}, which do not make every output True, on {desc}')
        elif model is not None:
            probs.append(f'an unsatisfiable query returns the model {model} on {desc}')
        if len(probs) > 3:
            break
    ck.check(not probs, R, sm, sm.func('is_circuit_satisfiable'), f'is_circuit_satisfiable folded end to end with a model solver over {n} model circuits: True exactly when some assignment makes all outputs True; '
             'a returned model projects (variables 1..n = inputs) onto such an assignment; no model for an unsatisfiable query', '; '.join(probs[:2]), construct='is_circuit_satisfiable over the circuit family')
    ck.assume('the satisfiability query is folded with a model solver (exhaustive search) over a bounded family of model circuits; the real solver is assumed sound and complete')
