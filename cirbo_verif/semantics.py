"""The oracle: reference gate semantics, written from the statement of C01.

Not derived from the repository. Truth-table codes are f(0,0) f(0,1) f(1,0) f(1,1).
"""

from __future__ import annotations

import functools
import itertools
import operator

# arity classes: ('any',) constants ignoring operands; ('fixed', k); ('atleast', k)
ANY = ('any',)
FIX1 = ('fixed', 1)
FIX2 = ('fixed', 2)
NARY = ('atleast', 2)


def _fold(op, neg=False):
    def f(*xs):
        v = functools.reduce(op, xs)
        return (not v) if neg else v

    return f


ORACLE = {
    # name: (arity class, function over bools, symmetric)
    'ALWAYS_TRUE': (ANY, lambda *xs: True, True),
    'ALWAYS_FALSE': (ANY, lambda *xs: False, True),
    'NOT': (FIX1, lambda a: not a, True),
    'IFF': (FIX1, lambda a: a, True),
    'AND': (NARY, _fold(operator.and_), True),
    'OR': (NARY, _fold(operator.or_), True),
    'XOR': (NARY, _fold(operator.xor), True),
    'NAND': (NARY, _fold(operator.and_, True), True),
    'NOR': (NARY, _fold(operator.or_, True), True),
    'NXOR': (NARY, _fold(operator.xor, True), True),
    'GT': (FIX2, lambda a, b: a and not b, False),
    'LT': (FIX2, lambda a, b: (not a) and b, False),
    'GEQ': (FIX2, lambda a, b: a or not b, False),
    'LEQ': (FIX2, lambda a, b: (not a) or b, False),
    'LIFF': (FIX2, lambda a, b: a, False),
    'LNOT': (FIX2, lambda a, b: not a, False),
    'RIFF': (FIX2, lambda a, b: b, False),
    'RNOT': (FIX2, lambda a, b: not b, False),
}

ALL_TYPES = ('INPUT',) + tuple(ORACLE)
BENCH_BASIS = ('INPUT', 'NOT', 'AND', 'OR', 'NAND', 'NOR', 'XOR', 'NXOR', 'IFF')


def arities(name, max_nary=4):
    cls = ORACLE[name][0]
    if cls == ANY:
        return [0, 1, 2]
    if cls[0] == 'fixed':
        return [cls[1]]
    return list(range(2, max_nary + 1))


def legal_arity(name, k):
    """Can the operator of this type be applied to k operands at all (the library's operators raise TypeError otherwise)?"""
    if name == 'INPUT':
        return k == 0
    cls = ORACLE[name][0]
    if cls == ANY:
        return True
    if cls[0] == 'fixed':
        return k == cls[1]
    return k >= cls[1]


def fn(name):
    return ORACLE[name][1]


def value(name, xs):
    return bool(ORACLE[name][1](*xs))


def binary_code(name) -> str:
    """Truth-table code of a type read as a two-operand gate: f(0,0)f(0,1)f(1,0)f(1,1)."""
    cls, f, _ = ORACLE[name]
    out = []
    for a, b in itertools.product((False, True), repeat=2):
        if cls == FIX1:
            raise ValueError(name)
        out.append('1' if f(a, b) else '0')
    return ''.join(out)


# the 16 binary Boolean functions by code -> canonical type name (None where the
# library has no dedicated two-operand type: constants are ALWAYS_*)
CODE_TO_NAME = {binary_code(n): n for n in ORACLE if ORACLE[n][0] != FIX1}


def bools(n):
    return itertools.product((False, True), repeat=n)
