"""E1: gate denotations as written in the repository (operators.py, gate.py)."""

from __future__ import annotations

import ast
import itertools
import typing as tp

from .core import AnalysisError, Checker, Repo, gate_const, norm, GATE_NAMES
from .interp import Host, Interp, InterpRaise, RepoFunc

OPS_MOD = 'cirbo.core.circuit.operators'
GATE_MOD = 'cirbo.core.circuit.gate'


class _U(Host):
    """Stand-in for operators.Undefined (third truth value)."""

    def __repr__(self):
        return 'Undefined'

    def __bool__(self):
        raise InterpRaise('GateStateError')

    def __eq__(self, other):
        return isinstance(other, _U)

    def __hash__(self):
        return hash('Undefined')


U = _U()
TRI = (False, True, U)


def tri_name(v):
    return 'U' if isinstance(v, _U) else ('1' if v else '0')


class GateTypeVal(Host):
    """Value of a `GateType(name, operator, symmetric)` registration."""

    _repo_class_name = 'GateType'

    def __init__(self, name, operator, is_symmetric, node=None, var=None):
        self.var = var or name
        self._name = name
        self._operator = operator
        self._is_symmetric = is_symmetric
        self.node = node

    @property
    def name(self):
        return self._name

    @property
    def operator(self):
        if self._operator is None:
            raise InterpRaise('GateTypeNoOperatorError')
        return self._operator

    @property
    def is_symmetric(self):
        return self._is_symmetric

    def __eq__(self, other):
        return isinstance(other, GateTypeVal) and self._name == other._name

    def __hash__(self):
        return hash(self._name)

    def __repr__(self):
        return f'gate.{self._name}'

    def __lt__(self, other):
        return self._name < other._name


def arity_class(fn: ast.FunctionDef):
    a = fn.args
    n = len(a.posonlyargs) + len(a.args)
    if a.vararg:
        return ('any',) if n == 0 else ('atleast', n)
    return ('fixed', n)


class Denotations:
    """Operator functions and the 19 GateType registrations, from the syntax tree."""

    def __init__(self, repo: Repo):
        self.repo = repo
        self.ops = repo.mod(OPS_MOD)
        self.gate = repo.mod(GATE_MOD)
        self.interp = Interp(repo, overrides={f'{OPS_MOD}.Undefined': U})
        # registrations
        self.types: dict[str, GateTypeVal] = {}
        self.reg_nodes: dict[str, ast.stmt] = {}
        for var, value in self.gate.assigns.items():
            if isinstance(value, ast.Call) and norm(value.func) == 'GateType':
                args = value.args
                if len(args) != 3 or value.keywords:
                    raise AnalysisError(f'{self.gate.rel}: unrecognised GateType registration `{norm(value)}`')
                if not isinstance(args[0], ast.Constant) or not isinstance(args[2], ast.Constant):
                    raise AnalysisError(f'{self.gate.rel}: non-literal GateType registration `{norm(value)}`')
                opn = args[1]
                if isinstance(opn, ast.Constant) and opn.value is None:
                    op = None
                else:
                    res = repo.resolve_expr(self.gate, opn)
                    if not res or res[2] != 'function' or res[0].name != OPS_MOD:
                        raise AnalysisError(f'{self.gate.rel}: operator of {var} does not resolve into operators.py')
                    op = res[1]
                self.types[var] = GateTypeVal(args[0].value, op, bool(args[2].value), value, var)
                self.reg_nodes[var] = self.gate.assign_nodes[var]

    def op_func(self, opname) -> ast.FunctionDef:
        return self.ops.func(opname)

    def op_arity(self, opname):
        return arity_class(self.op_func(opname))

    def eval_op(self, opname, args):
        """Value of operator `opname` on a tuple over {False, True, U}; 'raise:<E>' when it rejects."""
        fn = RepoFunc(self.interp, self.ops, self.op_func(opname))
        self.interp.steps = 0
        try:
            return fn(*args)
        except InterpRaise as e:
            return f'raise:{e.exc_name}'

    def type_value(self, tname, args):
        t = self.types[tname]
        return self.eval_op(t._operator, args)

    def host_types(self) -> dict[str, GateTypeVal]:
        """GateType host values keyed by canonical name, for use as interpreter overrides.

        The `_operator` of each host value is a Python callable evaluating the
        repository's operator through the mini-evaluator.
        """
        out = {}
        for var, t in self.types.items():
            if t._operator is None:
                op = None
            else:
                op = RepoFunc(self.interp, self.ops, self.op_func(t._operator))
            out[f'{GATE_MOD}.{var}'] = GateTypeVal(t._name, op, t._is_symmetric, t.node, var)
        return out


def gate_overrides(den: Denotations) -> dict:
    ov = den.host_types()
    ov[f'{OPS_MOD}.Undefined'] = U
    return ov
